#!/venv/bin/python
"""Native replay harnesses (run with /venv/bin/python against /repo). They are used only to CONFIRM a
counter-model produced by the verifier: each prints one JSON object {"reproduced": bool, "detail": ...}.
usage: native.py <recipe> [json-args]"""
import json
import math
import sys
import warnings

warnings.simplefilter('ignore')
import os
sys.path.insert(0, os.environ.get('PYVC_REPO', '/repo'))
import torch  # noqa: E402
import torchsde  # noqa: E402

torch.set_default_dtype(torch.float64)


class RecordingBM:
    def __init__(self, bm):
        self.bm = bm
        self.q = []

    def __call__(self, ta, tb=None, return_U=False, return_A=False):
        self.q.append((float(ta), float(tb)))
        return self.bm(ta, tb, return_U=return_U, return_A=return_A)

    def __getattr__(self, n):
        return getattr(self.bm, n)


class SDE(torch.nn.Module):
    def __init__(self, noise_type='diagonal', sde_type='ito', d=2):
        super().__init__()
        self.noise_type = noise_type
        self.sde_type = sde_type
        self.d = d
        self.a = torch.nn.Parameter(torch.tensor(0.3))

    def f(self, t, y):
        return -self.a * y + torch.sin(t + y)

    def g(self, t, y):
        if self.noise_type == 'diagonal':
            return 0.3 + 0.2 * torch.cos(y)
        if self.noise_type == 'additive':
            # independent of the state, but with a per-sample scale (rows of the batch need not share one matrix)
            scale = (1.0 + 0.5 * torch.arange(y.shape[0], dtype=y.dtype)).view(-1, 1, 1)
            return (0.2 + 0.1 * torch.sin(t)) * scale * torch.ones(y.shape[0], self.d, 2, dtype=y.dtype)
        if self.noise_type == 'scalar':
            return (0.3 + 0.2 * torch.cos(y)).unsqueeze(-1)
        return torch.stack([0.3 + 0.2 * torch.cos(y), 0.1 * y], dim=-1)


def noise_m(noise, d):
    return {'diagonal': d, 'additive': 2, 'scalar': 1, 'general': 2}[noise]


def bm_for(method, B, m, t0, t1):
    levy = 'space-time' if method == 'srk' else ('foster' if method == 'log_ode' else 'none')
    return torchsde.BrownianInterval(t0, t1, size=(B, m), entropy=123, levy_area_approximation=levy, dtype=torch.float64)


CONFIGS = [('euler', 'ito', 'diagonal'), ('milstein', 'ito', 'diagonal'), ('srk', 'ito', 'additive'),
           ('midpoint', 'stratonovich', 'general'), ('heun', 'stratonovich', 'scalar'),
           ('reversible_heun', 'stratonovich', 'diagonal'), ('euler_heun', 'stratonovich', 'diagonal')]


def linear_interp(args):
    from torchsde._core import interp
    t0, y0, t1, y1, t = (float(args[k]) for k in ('t0', 'y0', 't1', 'y1', 't'))
    try:
        got = float(interp.linear_interp(t0=t0, y0=torch.tensor(y0), t1=t1, y1=torch.tensor(y1), t=t))
    except AssertionError:
        return {'reproduced': False, 'detail': 'assertion (outside precondition)'}
    want = y0 + (t - t0) / (t1 - t0) * (y1 - y0)
    bad = abs(got - want) > 1e-9 * max(1.0, abs(want))
    return {'reproduced': bad, 'detail': {'args': [t0, y0, t1, y1, t], 'got': got, 'want': want}}


def c12(args):
    """Grid / interpolation / output-time invariance on concrete runs."""
    bad = []
    for (method, st, noise) in CONFIGS:
        for (t0, t1, dt, inner) in [(0., 1., 0.4, [0.3]), (0., 1., 0.25, [0.1, 0.15, 0.5]), (20., 21., 0.001, [20.0059, 20.5001]),
                                    (0., 2., 0.3, [0.3, 0.31, 1.7]), (0., 0.37, 0.1, [0.25, 0.33]), (0., 1., 0.3, [0.95]), (0., 0.5, 1.0, [0.2])]:
            d = 2
            sde = SDE(noise, st, d)
            y0 = torch.full((3, d), 0.5)
            m = noise_m(noise, d)
            bm = RecordingBM(bm_for(method, 3, m, t0, t1))
            ts_full = torch.tensor([t0] + inner + [t1])
            ys_full = torchsde.sdeint(sde, y0, ts_full, bm=bm, method=method, dt=dt)
            grid = [bm.q[0][0]] + [q[1] for q in bm.q]
            # expected grid
            exp = [t0]
            while exp[-1] < t1:
                exp.append(min(exp[-1] + dt, t1))
            if len(grid) != len(exp) or any(abs(a - b) > 1e-9 for a, b in zip(grid, exp)):
                bad.append((method, 'grid', t0, t1, dt, grid[:5], exp[:5]))
                continue
            if not torch.equal(ys_full[0], y0):
                bad.append((method, 'ys[0]!=y0'))
            # grid states by asking for all grid times
            bm2 = bm_for(method, 3, m, t0, t1)
            ys_grid = torchsde.sdeint(sde, y0, torch.tensor(exp), bm=bm2, method=method, dt=dt)
            for j, tau in enumerate(ts_full.tolist()[1:], 1):
                k = next(i for i in range(1, len(exp)) if exp[i - 1] < tau <= exp[i] + 1e-15)
                a, b = exp[k - 1], exp[k]
                want = ys_grid[k - 1] + (tau - a) / (b - a) * (ys_grid[k] - ys_grid[k - 1])
                err = (ys_full[j] - want).abs().max().item()
                scale = (ys_grid[k] - ys_grid[k - 1]).abs().max().item() + 1e-12
                if err > 1e-7 * max(1.0, scale / 1e-3) and err > 1e-9:
                    bad.append((method, 'interp', tau, err, scale))
            # output-time invariance
            bm3 = bm_for(method, 3, m, t0, t1)
            ys_ends = torchsde.sdeint(sde, y0, torch.tensor([t0, t1]), bm=bm3, method=method, dt=dt)
            if (ys_ends[-1] - ys_full[-1]).abs().max().item() > 1e-10:
                bad.append((method, 'invariance', (ys_ends[-1] - ys_full[-1]).abs().max().item()))
    return {'reproduced': bool(bad), 'detail': bad[:6]}


def c13(args):
    bad = []
    for (method, st, noise) in CONFIGS:
        for (t0, t2, dt) in [(0., 1., 0.1), (0.3, 1.7, 0.07), (0., 1., 0.125), (0., 1.7, 0.208), (0., 1.9, 0.455), (0., 0.5, 0.042)]:
            d = 2
            sde = SDE(noise, st, d)
            y0 = torch.full((2, d), 0.5)
            m = noise_m(noise, d)
            bm = RecordingBM(bm_for(method, 2, m, t0, t2))
            kw = dict(method=method, dt=dt, extra=True)
            ys, extra = torchsde.sdeint(sde, y0, torch.tensor([t0, t2]), bm=bm, **kw)
            grid = [bm.q[0][0]] + [q[1] for q in bm.q]
            for k1 in range(1, len(grid) - 1):
                t1 = grid[k1]
                ya, ea = torchsde.sdeint(sde, y0, torch.tensor([t0, t1]), bm=bm.bm, **kw)
                yb, eb = torchsde.sdeint(sde, ya[-1], torch.tensor([t1, t2]), bm=bm.bm, extra_solver_state=ea, **kw)
                if not torch.equal(yb[-1], ys[-1]) or any(not torch.equal(a, b) for a, b in zip(eb, extra)):
                    bad.append((method, noise, t0, t2, dt, k1, (yb[-1] - ys[-1]).abs().max().item()))
                    break
    return {'reproduced': bool(bad), 'detail': bad[:6]}


def c04(args):
    """Distinct nodes of a deep tree must own distinct (spawn_key, depth) pairs and seeds (independence of the per-node streams)."""
    bad = []
    for levy in ('none', 'space-time'):
        bm = torchsde.BrownianInterval(0., 1., size=(4,), entropy=5, levy_area_approximation=levy, dtype=torch.float64, cache_size=None)
        bm(0., 0.5)
        for k in range(50):
            bm(k / 100., (k + 1) / 100.)
        for k in range(50, 100):
            bm(k / 100., (k + 1) / 100.)
        seen, stack, n = {}, [bm], 0
        while stack:
            nd = stack.pop()
            if getattr(nd, '_midway', None) is None:
                continue
            n += 1
            key = (int(nd._spawn_key), int(nd._depth))
            if key in seen:
                o = seen[key]
                bad.append((levy, 'two nodes share (spawn_key, depth)', key, (o._start, o._end), (nd._start, nd._end), 'same W seed', int(o._W_seed) == int(nd._W_seed)))
                if len(bad) > 3:
                    break
            seen[key] = nd
            stack += [nd._left_child, nd._right_child]
        if n < 60:
            bad.append((levy, 'tree unexpectedly shallow', n))
    _chen_A_check(bad, 'levy area of multi-node queries')
    return {'reproduced': bool(bad), 'detail': [str(b) for b in bad[:5]]}


def c11(args):
    """AdjointSDE.f / g_prod / f_and_g_prod against the adjoint system written with per-column scalar functions and autograd.grad."""
    from torchsde._core.base_sde import ForwardSDE
    from torchsde._core.adjoint_sde import AdjointSDE
    from torchsde._core import misc
    bad = []
    for st in ('ito', 'stratonovich'):
        for noise in ('diagonal', 'scalar', 'additive', 'general'):
            d, Bn = 2, 3
            m = noise_m(noise, d)

            class P(SDE):
                def __init__(self):
                    super().__init__(noise, st, d)
                    self.b = torch.nn.Parameter(torch.tensor(0.7))

                def g(self, t, y):
                    return super().g(t, y) * self.b
            sde = P().double()
            fs = ForwardSDE(sde)
            params = list(sde.parameters())
            gen = torch.Generator().manual_seed(3)
            y = torch.rand(Bn, d, generator=gen, dtype=torch.float64)
            a = torch.rand(Bn, d, generator=gen, dtype=torch.float64)
            v = torch.rand(Bn, m, generator=gen, dtype=torch.float64)
            shapes = [y.shape, a.shape] + [p_.shape for p_ in params]
            adj = AdjointSDE(fs, params, shapes)
            y_aug = misc.flatten([y, a] + [torch.zeros_like(p_) for p_ in params]).unsqueeze(0)
            t = torch.tensor(-0.3, dtype=torch.float64)       # adjoint time; forward time is -t

            def G3(yy):
                g = sde.g(-t, yy)
                return torch.diag_embed(g) if noise == 'diagonal' else g
            yl = y.clone().requires_grad_()
            f = sde.f(-t, yl)
            g3 = G3(yl)

            def grads(scalar):
                r = torch.autograd.grad(scalar, [yl] + params, allow_unused=True, retain_graph=True)
                return [torch.zeros_like(x) if r_ is None else r_ for r_, x in zip(r, [yl] + params)]
            if st == 'ito' and noise != 'additive':
                # sum_j (d g_j / d y) g_j, with the Jacobian of column j built row by row
                corr = sum(torch.stack([torch.autograd.grad(g3[b, k, j], yl, retain_graph=True, create_graph=True)[0][b]
                                        for b in range(Bn) for k in range(d)]).reshape(Bn, d, d).matmul(g3[..., j].unsqueeze(-1)).squeeze(-1)
                           for j in range(m))
                ftil = f - corr
            else:
                ftil = f
            want_f = [-ftil.detach()] + grads((a * ftil).sum())
            if st == 'ito' and noise != 'additive':
                for j in range(m):
                    cj = torch.autograd.grad((a * g3[..., j]).sum(), yl, retain_graph=True)[0].detach()
                    extra = grads((cj * g3[..., j]).sum())
                    want_f = [want_f[0]] + [w_ + e_ for w_, e_ in zip(want_f[1:], extra)]
            gv = torch.einsum('bij,bj->bi', g3, v)
            want_g = [-gv.detach()] + grads((a * gv).sum())
            want_f = misc.flatten(want_f)
            want_g = misc.flatten(want_g)
            got_f = adj.f(t, y_aug).reshape(-1)
            got_g = adj.g_prod(t, y_aug, v).reshape(-1)
            got_f2, got_g2 = adj.f_and_g_prod(t, y_aug, v)
            for nm, got, want in (('f', got_f, want_f), ('g_prod', got_g, want_g), ('f_and_g_prod[0]', got_f2.reshape(-1), want_f),
                                  ('f_and_g_prod[1]', got_g2.reshape(-1), want_g)):
                err = (got.detach() - want).abs().max().item()
                if err > 1e-9:
                    bad.append((st, noise, nm, err))
    return {'reproduced': bool(bad), 'detail': [str(b) for b in bad[:8]]}


def c09(args):
    """Adjoint gradients against backpropagation through the same solver on the same Brownian path at a fine step (both converge to the
    true gradient), for every adjoint method the documentation admits; plus equal forward values."""
    import warnings
    bad, seen = [], []
    cases = []
    for noise in ('diagonal', 'scalar', 'additive', 'general'):
        for am in ('euler', 'milstein'):
            if am == 'milstein' and noise != 'diagonal':
                continue
            cases.append(('ito', noise, 'euler', am))
        for am in ('midpoint', 'heun', 'euler_heun') + (('milstein',) if noise == 'diagonal' else ()):
            cases.append(('stratonovich', noise, 'midpoint', am))
        cases.append(('stratonovich', noise, 'reversible_heun', 'adjoint_reversible_heun'))
    for st, noise, fm, am in cases:
        d, Bn = 2, 256
        m = noise_m(noise, d)
        torch.manual_seed(0)
        grads, vals = [], []
        for adjoint in (False, True):
            sde = SDE(noise, st, d).double()
            y0 = torch.full((Bn, d), 0.5, dtype=torch.float64, requires_grad=True)
            bm = torchsde.BrownianInterval(0., 1., size=(Bn, m), entropy=21, dtype=torch.float64)
            ts = torch.tensor([0., 0.4, 1.0], dtype=torch.float64)
            with warnings.catch_warnings():
                warnings.simplefilter('ignore')
                if adjoint:
                    ys = torchsde.sdeint_adjoint(sde, y0, ts, bm=bm, method=fm, adjoint_method=am, dt=2.0 ** -8)
                else:
                    ys = torchsde.sdeint(sde, y0, ts, bm=bm, method=fm, dt=2.0 ** -8)
            loss = (ys[-1] ** 2).sum(1).mean() + 0.5 * (ys[1] ** 2).sum(1).mean()
            g = torch.autograd.grad(loss, [y0] + list(sde.parameters()))
            grads.append(torch.cat([g[0].sum(0).reshape(-1)] + [x.reshape(-1) for x in g[1:]]))
            vals.append(ys.detach())
        rel = ((grads[0] - grads[1]).abs().max() / grads[0].abs().max().clamp_min(1e-12)).item()
        seen.append((st, noise, fm, am, round(rel, 5)))
        if not torch.equal(vals[0], vals[1]):
            bad.append((st, noise, fm, am, 'forward values differ', (vals[0] - vals[1]).abs().max().item()))
        if rel > 0.05:
            bad.append((st, noise, fm, am, 'adjoint gradient differs from backprop gradient at dt=2^-8 by relative', round(rel, 4)))
    return {'reproduced': bool(bad), 'detail': {'bad': [str(b) for b in bad[:8]], 'all': [str(x) for x in seen]}}


def c09iso(args):
    """Parameters outside adjoint_params must not receive gradients (the failing call site is named by the arguments)."""
    import warnings
    method, am = args.get('method', 'reversible_heun'), args.get('adjoint_method', 'adjoint_reversible_heun')

    class S(torch.nn.Module):
        noise_type, sde_type = 'diagonal', 'stratonovich'

        def __init__(self):
            super().__init__()
            self.a = torch.nn.Parameter(torch.tensor(0.3, dtype=torch.float64))
            self.b = torch.nn.Parameter(torch.tensor(0.5, dtype=torch.float64))

        def f(self, t, y):
            return -self.a * y

        def g(self, t, y):
            return self.b * torch.cos(y)
    bad = []
    for label in ('()', '(a,)'):
        sde = S()
        y0 = torch.full((2, 2), 0.5, dtype=torch.float64, requires_grad=True)
        bm = torchsde.BrownianInterval(0., 1., size=(2, 2), entropy=1, dtype=torch.float64)
        with warnings.catch_warnings():
            warnings.simplefilter('ignore')
            ys = torchsde.sdeint_adjoint(sde, y0, torch.tensor([0., 0.5, 1.0], dtype=torch.float64), bm=bm, method=method, adjoint_method=am, dt=2 ** -4,
                                         adjoint_params=() if label == '()' else (sde.a,))
            (ys[-1] ** 2).sum().backward()
        for nm, p_ in (('a', sde.a), ('b', sde.b)):
            asked = label == '(a,)' and nm == 'a'
            if not asked and p_.grad is not None and p_.grad.abs().item() > 0:
                bad.append((method, 'adjoint_params=' + label, f'{nm}.grad = {p_.grad.item():.4f} although {nm} was not asked for'))
    return {'reproduced': bool(bad), 'detail': [str(b) for b in bad]}


def c10(args):
    bad = []
    for noise in ('diagonal', 'additive', 'scalar', 'general'):
        d = 2
        m = noise_m(noise, d)
        ts = torch.tensor([0., 0.5, 1.0, 1.5])
        for wts in ([1., 1., 1., 1.], [0., 1., 0., 0.], [0., 0.3, 1., 0.], [0.5, 0., 0., 2.]):
            grads = []
            for adjoint in (False, True):
                sde = SDE(noise, 'stratonovich', d)
                y0 = torch.full((2, d), 0.5, requires_grad=True)
                bm = torchsde.BrownianInterval(0., 1.5, size=(2, m), entropy=7, dtype=torch.float64)
                if adjoint:
                    ys = torchsde.sdeint_adjoint(sde, y0, ts, bm=bm, method='reversible_heun', adjoint_method='adjoint_reversible_heun', dt=0.125)
                else:
                    ys = torchsde.sdeint(sde, y0, ts, bm=bm, method='reversible_heun', dt=0.125)
                loss = sum(w * (ys[i] ** 2).sum() for i, w in enumerate(wts))
                g = torch.autograd.grad(loss, [y0] + list(sde.parameters()))
                grads.append(torch.cat([x.reshape(-1) for x in g]))
            rel = ((grads[0] - grads[1]).abs().max() / grads[0].abs().max().clamp_min(1e-12)).item()
            if rel > 1e-9:
                bad.append((noise, wts, rel))
    # integration window with negative times (the drift of SDE depends on t through sin(t + y): not even in t)
    for noise in ('diagonal', 'general'):
        d = 2
        m = noise_m(noise, d)
        ts = torch.tensor([-1.0, -0.5, 0.5])
        grads = []
        for adjoint in (False, True):
            sde = SDE(noise, 'stratonovich', d)
            y0 = torch.full((2, d), 0.5, requires_grad=True)
            bm = torchsde.BrownianInterval(-1.0, 0.5, size=(2, m), entropy=7, dtype=torch.float64)
            if adjoint:
                ys = torchsde.sdeint_adjoint(sde, y0, ts, bm=bm, method='reversible_heun', adjoint_method='adjoint_reversible_heun', dt=0.125)
            else:
                ys = torchsde.sdeint(sde, y0, ts, bm=bm, method='reversible_heun', dt=0.125)
            g = torch.autograd.grad((ys ** 2).sum(), [y0] + list(sde.parameters()))
            grads.append(torch.cat([x.reshape(-1) for x in g]))
        rel = ((grads[0] - grads[1]).abs().max() / grads[0].abs().max().clamp_min(1e-12)).item()
        if rel > 1e-9:
            bad.append((noise, 'negative times', rel))
    # user functions that return their argument itself (storage shared between the state and the vector fields)
    for which in ('g', 'f'):
        class Ident(torch.nn.Module):
            noise_type, sde_type = 'diagonal', 'stratonovich'

            def __init__(self):
                super().__init__()
                self.c = torch.nn.Parameter(torch.tensor(0.3, dtype=torch.float64))

            def f(self, t, y):
                return y if which == 'f' else -self.c * y

            def g(self, t, y):
                return y if which == 'g' else self.c * torch.cos(y)
        ts = torch.tensor([0., 0.25, 0.5, 1.0], dtype=torch.float64)
        grads = []
        for adjoint in (False, True):
            sde = Ident()
            y0 = torch.full((2, 2), 0.5, dtype=torch.float64, requires_grad=True)
            bm = torchsde.BrownianInterval(0., 1., size=(2, 2), entropy=7, dtype=torch.float64)
            fn = torchsde.sdeint_adjoint if adjoint else torchsde.sdeint
            kw = dict(adjoint_method='adjoint_reversible_heun') if adjoint else {}
            ys = fn(sde, y0, ts, bm=bm, method='reversible_heun', dt=2.0 ** -4, **kw)
            loss = sum((i + 1.0) * (ys[i] ** 2).sum() for i in range(len(ts)))
            g = torch.autograd.grad(loss, [y0] + list(sde.parameters()), allow_unused=True)
            grads.append(torch.cat([x.reshape(-1) for x in g if x is not None]))
        rel = ((grads[0] - grads[1]).abs().max() / grads[0].abs().max().clamp_min(1e-12)).item()
        if rel > 1e-9:
            bad.append((f'{which}(t, y) returns y itself', rel))
    return {'reproduced': bool(bad), 'detail': [str(b) for b in bad[:6]]}


def _bm_configs():
    out = []
    for (t0, t1) in ((-1., 1.), (0., 2.)):
        for levy in ('none', 'space-time', 'davie'):
            for kw in (dict(), dict(cache_size=1), dict(dt=0.05), dict(tol=1e-3, halfway_tree=True)):
                if levy == 'davie' and kw:
                    continue
                out.append((t0, t1, levy, kw))
    return out


def _chen_A_check(bad, label):
    """Levy area of a query assembled from several stored pieces is the Chen combination of the pieces, per batch element."""
    for levy in ('davie', 'foster'):
        bm = torchsde.BrownianInterval(0., 1., size=(3, 2), entropy=9, levy_area_approximation=levy, dtype=torch.float64)
        pts = [0.0, 0.25, 0.5, 0.75, 1.0]
        parts = [bm(a, b, return_A=True) for a, b in zip(pts[:-1], pts[1:])]
        for k in (2, 3):        # [0, 1] itself is one stored node (the root), whose area is its own approximation, not a combination
            W, A = bm(pts[0], pts[k], return_A=True)
            Wacc, Aacc = parts[0][0].clone(), parts[0][1].clone()
            for (Wi, Ai) in parts[1:k]:
                Aacc = Aacc + Ai + 0.5 * (Wacc.unsqueeze(-1) * Wi.unsqueeze(-2) - Wi.unsqueeze(-1) * Wacc.unsqueeze(-2))
                Wacc = Wacc + Wi
            if (W - Wacc).abs().max().item() > 1e-9 or (A - Aacc).abs().max().item() > 1e-9:
                bad.append((label, levy, f'{k}-node query', 'A differs from Chen combination of its parts by', (A - Aacc).abs().max().item()))


def c03(args):
    """Chen / additivity / repeated-query consistency after solver-shaped and random histories."""
    import random
    bad = []
    for (t0, t1, levy, kw) in _bm_configs():
        rnd = random.Random(5)
        bm = torchsde.BrownianInterval(t0, t1, size=(2, 2), entropy=11, levy_area_approximation=levy, dtype=torch.float64, **kw)
        grid = [round(t0 + k * (t1 - t0) / 20, 6) for k in range(21)]
        seen = {}
        def q(a, b):
            r = bm(a, b, return_U=(levy != 'none'))
            return r if isinstance(r, tuple) else (r, None)
        history = [(grid[k], grid[k + 1]) for k in range(0, 20, 3)] + [(0.0 if t0 < 0 else 1.0, t1 * 0.5 + 0.25)]
        for _ in range(15):
            a, b = sorted(rnd.sample(grid, 2))
            history.append((a, b))
        for (a, b) in history:
            W, U = q(a, b)
            key = (a, b)
            if key in seen and not torch.equal(seen[key][0], W):
                bad.append(('repeat', t0, t1, levy, kw, a, b, (seen[key][0] - W).abs().max().item()))
            seen[key] = (W, U)
            s_, u_, t_ = sorted(rnd.sample(grid, 3))
            Wst, Ust = q(s_, t_)
            Wsu, Usu = q(s_, u_)
            Wut, Uut = q(u_, t_)
            if (Wst - Wsu - Wut).abs().max().item() > 1e-9:
                bad.append(('additivity', t0, t1, levy, kw, s_, u_, t_, (Wst - Wsu - Wut).abs().max().item()))
            if Ust is not None and (Ust - Usu - Uut - (t_ - u_) * Wsu).abs().max().item() > 1e-9:
                bad.append(('chen-U', t0, t1, levy, kw, s_, u_, t_))
            # values returned earlier must still be consistent with what is returned now
            for (a2, b2), (W2, U2) in list(seen.items())[-3:]:
                W3, U3 = q(a2, b2)
                if not torch.equal(W3, W2):
                    bad.append(('history-dependence', t0, t1, levy, kw, a2, b2, (W3 - W2).abs().max().item()))
            if len(bad) > 5:
                break
        z = bm(grid[3], grid[3])
        if isinstance(z, torch.Tensor) and z.abs().max().item() != 0:
            bad.append(('zero-length', t0, t1, levy, kw))
    # tol > 0: queries exactly one grid step long are not empty
    for tol, pts in ((1e-2, [0.1, 0.11, 0.12, 0.13]), (1e-3, [0.203, 0.204, 0.205]), (1e-6, [0.5, 0.500001, 0.500002])):
        for kw in (dict(tol=tol), dict(tol=tol, halfway_tree=True)):
            bm = torchsde.BrownianInterval(0., 1., size=(2,), entropy=3, dtype=torch.float64, levy_area_approximation='space-time', **kw)
            for i in range(len(pts) - 2):
                s_, u_, t_ = pts[i], pts[i + 1], pts[i + 2]
                (Wst, Ust), (Wsu, Usu), (Wut, Uut) = bm(s_, t_, return_U=True), bm(s_, u_, return_U=True), bm(u_, t_, return_U=True)
                if (Wst - Wsu - Wut).abs().max().item() > 1e-9:
                    bad.append(('additivity over one-grid-step pieces', kw, s_, u_, t_, (Wst - Wsu - Wut).abs().max().item()))
                if (Ust - Usu - Uut - (t_ - u_) * Wsu).abs().max().item() > 1e-9:
                    bad.append(('chen-U over one-grid-step pieces', kw, s_, u_, t_))
    _chen_A_check(bad, 'chen-A')
    return {'reproduced': bool(bad), 'detail': [str(b) for b in bad[:6]]}


def c06(args):
    bad = []
    # same entropy, same queries -> identical; dyadic mode: history independence
    for kw in (dict(), dict(levy_area_approximation='space-time'), dict(tol=1e-3, halfway_tree=True), dict(cache_size=1)):
        a = torchsde.BrownianInterval(0., 1., size=(2, 2), entropy=3, dtype=torch.float64, **kw)
        b = torchsde.BrownianInterval(0., 1., size=(2, 2), entropy=3, dtype=torch.float64, **kw)
        for (s_, t_) in [(0.1, 0.4), (0.3, 0.9), (0.1, 0.4), (0., 1.), (0.25, 0.75)]:
            if not torch.equal(a(s_, t_), b(s_, t_)):
                bad.append(('same-entropy', kw, s_, t_))
    w0 = torch.tensor([[0.7, -0.3]], dtype=torch.float64)
    for hist in ([], [('p', 1.0)], [('p', 0.5), ('p', 0.5)], [('i', 0.1, 0.9)], [('p', 0.25), ('i', 0.5, 1.0)]):
        t = torchsde.BrownianTree(0., w0, t1=1., entropy=5, tol=1e-6)
        for h in hist:
            t(h[1]) if h[0] == 'p' else t(h[1], h[2])
        fresh = torchsde.BrownianTree(0., w0, t1=1., entropy=5, tol=1e-6)
        for (s_, t_) in [(0.25, 0.75), (0., 0.5), (0.5, 1.0)]:
            d = (t(s_, t_) - fresh(s_, t_)).abs().max().item()
            if d > 1e-12:
                bad.append(('history-dependence', hist, s_, t_, d))
        p1, p2 = t(0.5), t(0.5)
        if not torch.equal(p1, p2):
            bad.append(('point-query-not-repeatable', hist))
    return {'reproduced': bool(bad), 'detail': [str(b) for b in bad[:6]]}


def history(args):
    """Replay a counter-model of the history stand-in: queries q0, q1, ..., then q0 again, on BrownianInterval(t0, t1)."""
    qs = args['queries']
    bad = []
    for levy in ('none', 'space-time'):
        for kw in (dict(cache_size=0), dict(cache_size=None), dict(cache_size=1)):
            bm = torchsde.BrownianInterval(args.get('t0', -1.), args.get('t1', 1.), size=(2,), entropy=9, levy_area_approximation=levy,
                                           dtype=torch.float64, **kw)
            ru = levy != 'none'
            first = bm(qs[0][0], qs[0][1], return_U=ru)
            for (a, b) in qs[1:]:
                bm(a, b, return_U=ru)
            again = bm(qs[0][0], qs[0][1], return_U=ru)
            f = first if isinstance(first, tuple) else (first,)
            g = again if isinstance(again, tuple) else (again,)
            if any(not torch.equal(x, y) for x, y in zip(f, g)):
                bad.append((levy, kw, [(x - y).abs().max().item() for x, y in zip(f, g)]))
    return {'reproduced': bool(bad), 'detail': {'queries': qs, 'mismatches': [str(b) for b in bad[:4]]}}



def _sdeint_cfg(st, noise, d=2, B=2):
    sde = SDE(noise, st, d)
    m = noise_m(noise, d)
    return sde, m, torch.full((B, d), 0.5)


def c15(args):
    """Forward reversible Heun, then the negated time-reversed SDE with ReverseBrownian and negated extras (incl. a clipped last step);
    also with a forward run on negative times that is itself driven by a ReverseBrownian (double reversal)."""
    bad = []
    for noise in ('diagonal', 'scalar', 'additive', 'general'):
        for span in (1.0, 1.0625):
            for nested in (False, True):
                sde, m, y0 = _sdeint_cfg('stratonovich', noise)
                T0 = -span if nested else 0.0
                ts = torch.tensor([T0, T0 + 0.5, T0 + span])
                base = torchsde.BrownianInterval(0., span, size=(2, m), entropy=3, dtype=torch.float64)
                bm = torchsde.ReverseBrownian(base) if nested else base
                ys, (f, g, z) = torchsde.sdeint(sde, y0, ts, bm=bm, method='reversible_heun', dt=0.125, extra=True)

                class Minus(torch.nn.Module):
                    noise_type, sde_type = sde.noise_type, sde.sde_type

                    def f(self, t, y):
                        return -sde.f(-t, y)

                    def g(self, t, y):
                        return -sde.g(-t, y)
                # reverse on the same grid: step by step so that the grids coincide
                grid = [T0]
                while grid[-1] < T0 + span:
                    grid.append(min(grid[-1] + 0.125, T0 + span))
                yb, extra = ys[-1], (-f, -g, z)
                for k in range(len(grid) - 1, 0, -1):
                    out, extra = torchsde.sdeint(Minus(), yb, torch.tensor([-grid[k], -grid[k - 1]]), bm=torchsde.ReverseBrownian(bm),
                                                 method='reversible_heun', dt=1.0, extra=True, extra_solver_state=extra)
                    yb = out[-1]
                err = (yb - y0).abs().max().item()
                if err > 1e-9:
                    bad.append((noise, span, 'forward run driven by a ReverseBrownian' if nested else 'plain', err))
    # times held in float64 while the Brownian motion and the state are float32; grid points not representable in float32
    for noise in ('diagonal', 'general'):
        sde, m, _ = _sdeint_cfg('stratonovich', noise)
        sde = sde.float()
        y0 = torch.full((2, 2), 0.5, dtype=torch.float32)
        dt = 2.0 ** -3 + 2.0 ** -30
        grid = [k * dt for k in range(9)]
        base = torchsde.BrownianInterval(0., grid[-1], size=(2, m), entropy=3, dtype=torch.float32)
        ys, (f, g, z) = torchsde.sdeint(sde, y0, torch.tensor([grid[0], grid[-1]], dtype=torch.float64), bm=base, method='reversible_heun', dt=dt, extra=True)

        class Minus32(torch.nn.Module):
            noise_type, sde_type = sde.noise_type, sde.sde_type

            def f(self, t, y):
                return -sde.f(-t, y)

            def g(self, t, y):
                return -sde.g(-t, y)
        yb, extra = ys[-1], (-f, -g, z)
        for k in range(len(grid) - 1, 0, -1):
            out, extra = torchsde.sdeint(Minus32(), yb, torch.tensor([-grid[k], -grid[k - 1]], dtype=torch.float64), bm=torchsde.ReverseBrownian(base),
                                         method='reversible_heun', dt=1.0, extra=True, extra_solver_state=extra)
            yb = out[-1]
        err = (yb - y0).abs().max().item()
        if err > 2e-5:
            bad.append((noise, 'float64 times with a float32 Brownian motion', err))
    return {'reproduced': bool(bad), 'detail': bad[:6]}


def c17(args):
    bad = []
    class Gen(torch.nn.Module):
        def __init__(self, base):
            super().__init__()
            self.base, self.noise_type, self.sde_type = base, 'general', base.sde_type

        def f(self, t, y):
            return self.base.f(t, y)

        def g(self, t, y):
            g = self.base.g(t, y)
            return torch.diag_embed(g) if self.base.noise_type == 'diagonal' else g
    for method in ('euler', 'euler_heun', 'heun', 'midpoint', 'reversible_heun', 'log_ode'):
        st = 'ito' if method == 'euler' else 'stratonovich'
        for noise in ('diagonal', 'scalar', 'additive'):
            sde, m, y0 = _sdeint_cfg(st, noise)
            outs = []
            for s_ in (sde, Gen(sde)):
                bm = bm_for(method, 2, m, 0., 1.)
                outs.append(torchsde.sdeint(s_, y0, torch.tensor([0., 0.4, 1.0]), bm=bm, method=method, dt=0.125))
            err = (outs[0] - outs[1]).abs().max().item()
            if err > 1e-10:
                bad.append((method, noise, err))
    return {'reproduced': bool(bad), 'detail': bad[:6]}


def c20(args):
    bad = []
    for (method, st, noise) in CONFIGS + [('log_ode', 'stratonovich', 'general')]:
        d = 2
        sde = SDE(noise, st, d)
        m = noise_m(noise, d)
        y0 = torch.rand(3, d, generator=torch.Generator().manual_seed(1), dtype=torch.float64)
        bm = bm_for(method, 3, m, 0., 1.)
        ts = torch.tensor([0., 0.3, 1.0])
        ys = torchsde.sdeint(sde, y0, ts, bm=bm, method=method, dt=0.125)
        y0b = y0.clone()
        y0b[1:] = y0b[1:] + 1.0
        ysb = torchsde.sdeint(sde, y0b, ts, bm=bm, method=method, dt=0.125)
        if not torch.equal(ys[:, 0], ysb[:, 0]):
            bad.append((method, noise, 'row 0 changed when rows 1,2 changed', (ys[:, 0] - ysb[:, 0]).abs().max().item()))
    for size in ((2, 3), (2, 3, 3), (2, 2, 2, 3)):
        bm = torchsde.BrownianInterval(0., 1., size=size, entropy=4, levy_area_approximation='davie', dtype=torch.float64)
        W, U, A = bm(0., 1., return_U=True, return_A=True)
        H = U - 0.5 * W
        resid = (A - (H.unsqueeze(-1) * W.unsqueeze(-2) - W.unsqueeze(-1) * H.unsqueeze(-2))).reshape(-1, size[-1], size[-1])
        for i in range(resid.shape[0]):
            for j in range(i + 1, resid.shape[0]):
                if torch.allclose(resid[i], resid[j], atol=1e-12) and resid[i].abs().max() > 0:
                    bad.append(('levy noise shared between batch entries', size, i, j))
                    break
    _chen_A_check(bad, 'levy area of a multi-node query mixes or drops per-row cross terms')
    return {'reproduced': bool(bad), 'detail': [str(b) for b in bad[:6]]}


def c08(args):
    """Directional finite differences vs backprop, y0 requiring grad or not."""
    bad = []
    for (method, st, noise) in CONFIGS + [('milstein', 'stratonovich', 'scalar'), ('srk', 'ito', 'diagonal'), ('log_ode', 'stratonovich', 'general'),
                                         ('euler_heun', 'stratonovich', 'general'), ('heun', 'stratonovich', 'additive')]:
        for y0_rg in (False, True):
            torch.manual_seed(0)
            d = 2
            m = noise_m(noise, d)

            class P(SDE):
                def __init__(self):
                    super().__init__(noise, st, d)
                    self.b = torch.nn.Parameter(torch.tensor(0.4))

                def g(self, t, y):
                    return super().g(t, y) * (1 + self.b * torch.tanh(y).mean(dim=1).reshape(-1, *([1] * (super().g(t, y).dim() - 1))))
            sde = P()
            y0 = torch.full((2, d), 0.5, requires_grad=y0_rg)
            ts = torch.tensor([0., 0.3, 0.75, 1.0])

            def run(y0_):
                bm = bm_for(method, 2, m, 0., 1.)
                return (torchsde.sdeint(sde, y0_, ts, bm=bm, method=method, dt=0.25) ** 2).sum()
            loss = run(y0)
            params = list(sde.parameters())
            grads = torch.autograd.grad(loss, params, allow_unused=True)
            eps = 1e-6
            for p_, g_ in zip(params, grads):
                with torch.no_grad():
                    p_.add_(eps)
                    lp = run(y0.detach())
                    p_.sub_(2 * eps)
                    lm = run(y0.detach())
                    p_.add_(eps)
                fd = ((lp - lm) / (2 * eps)).item()
                ga = 0.0 if g_ is None else g_.item()
                if abs(fd - ga) > 1e-5 * max(1.0, abs(fd)):
                    bad.append((method, noise, y0_rg, 'param', fd, ga))
    # logqp=True with diagonal noise: the log-ratio output must be differentiable w.r.t. diffusion parameters too
    class LQ(torch.nn.Module):
        noise_type, sde_type = 'diagonal', 'ito'

        def __init__(self):
            super().__init__()
            self.b = torch.nn.Parameter(torch.tensor(0.6, dtype=torch.float64))

        def f(self, t, y):
            return -y

        def g(self, t, y):
            return self.b * (1.0 + 0.3 * torch.cos(y))

        def h(self, t, y):
            return -0.5 * y
    for method in ('euler', 'srk'):
        sde = LQ()

        def run():
            bm = torchsde.BrownianInterval(0., 1., size=(2, 3), entropy=5, dtype=torch.float64,
                                           levy_area_approximation='space-time' if method == 'srk' else 'none')
            ys, lq = torchsde.sdeint(sde, torch.full((2, 2), 0.5, dtype=torch.float64), torch.tensor([0., 0.5, 1.0], dtype=torch.float64), bm=bm,
                                     method=method, dt=0.125, logqp=True)
            return lq.sum()
        ga = torch.autograd.grad(run(), [sde.b])[0].item()
        eps = 1e-6
        with torch.no_grad():
            sde.b.add_(eps)
            lp = run().item()
            sde.b.sub_(2 * eps)
            lm = run().item()
            sde.b.add_(eps)
        fd = (lp - lm) / (2 * eps)
        if abs(fd - ga) > 1e-5 * max(1.0, abs(fd)):
            bad.append((method, 'logqp diagonal', 'd(log-ratio)/d(diffusion parameter)', fd, ga))
    return {'reproduced': bool(bad), 'detail': [str(b) for b in bad[:6]]}


def c18(args):
    bad = []
    for noise in ('diagonal', 'additive', 'general', 'scalar'):
        for method, st in (('euler', 'ito'), ('srk', 'ito'), ('heun', 'stratonovich'), ('reversible_heun', 'stratonovich')):
            if method == 'srk' and noise == 'general':
                continue
            d = 2
            m = noise_m(noise, d)
            c = torch.tensor([0.3, -0.7][:m] if noise != 'diagonal' else [0.3, -0.7])

            class L(SDE):
                def g(self, t, y):
                    # full column rank, so that pinv(g) g c == c and the exact value 0.5 |c|^2 (t_i - t_{i-1}) applies
                    if self.noise_type == 'additive':
                        return (torch.tensor([[0.3, 0.1], [0.0, 0.2]]) * (1.0 + 0.5 * t)).expand(y.shape[0], 2, 2)
                    if self.noise_type == 'general':
                        return torch.diag_embed(0.3 + 0.2 * torch.cos(y)) + 0.05
                    return super().g(t, y) * (1.0 + 0.5 * t)

                def h(self, t, y):
                    g = self.g(t, y)
                    return self.f(t, y) - (g * c if self.noise_type == 'diagonal' else (g @ c))
            sde = L(noise, st, d)
            y0 = torch.full((2, d), 0.5)
            ts = torch.tensor([0., 0.25, 0.75, 1.0])
            ys0 = torchsde.sdeint(sde, y0, ts, bm=bm_for(method, 2, m, 0., 1.), method=method, dt=0.125)
            mb = m if noise != 'diagonal' else d + 1
            levy = 'space-time' if method == 'srk' else 'none'
            # same noise for the first channels: build the augmented Brownian motion from the same entropy is not possible for
            # diagonal noise (extra channel), so compare only the non-diagonal cases for non-interference
            ys1, lq = torchsde.sdeint(sde, y0, ts, bm=(bm_for(method, 2, m, 0., 1.) if noise != 'diagonal' else None), method=method, dt=0.125, logqp=True)
            want = 0.5 * (c ** 2).sum() * (ts[1:] - ts[:-1])
            if (lq - want.unsqueeze(1)).abs().max().item() > 1e-8:
                bad.append((noise, method, 'exact case', lq[:, 0].tolist(), want.tolist()))
            if noise != 'diagonal' and (ys0 - ys1).abs().max().item() > 1e-12:
                bad.append((noise, method, 'state disturbed', (ys0 - ys1).abs().max().item()))
            if tuple(lq.shape) != (len(ts) - 1, 2) or (lq < 0).any():
                bad.append((noise, method, 'shape/sign', tuple(lq.shape)))
    # small but full-column-rank diffusion with one noise channel: the exact value must not depend on the scale of g
    for noise in ('scalar', 'additive', 'general'):
        for scale in (1.0, 1e-2, 1e-4):
            class Small(torch.nn.Module):
                noise_type, sde_type = noise, 'ito'

                def f(self, t, y):
                    return -y

                def g(self, t, y):
                    return (scale * torch.tensor([[1.0], [2.0]], dtype=torch.float64)).expand(y.shape[0], 2, 1)

                def h(self, t, y):
                    return self.f(t, y) - (self.g(t, y) @ torch.tensor([0.5], dtype=torch.float64))
            ts = torch.tensor([0., 0.25, 0.75, 1.0], dtype=torch.float64)
            _, lq = torchsde.sdeint(Small(), torch.full((2, 2), 0.5, dtype=torch.float64), ts, method='euler', dt=0.125, logqp=True)
            want = 0.5 * 0.25 * (ts[1:] - ts[:-1])
            if (lq - want.unsqueeze(1)).abs().max().item() > 1e-8:
                bad.append((noise, 'm=1, |g| scale', scale, 'exact case', lq[:, 0].tolist(), want.tolist()))
    return {'reproduced': bool(bad), 'detail': [str(b) for b in bad[:6]]}


def c14(args):
    """Adaptive stepping invariants on recorded step() calls; the error estimate against its definition."""
    from torchsde._core import methods as M
    from torchsde._core import adaptive_stepping as AS
    bad = []
    gen = torch.Generator().manual_seed(2)
    for scale in (1.0, 100.0):
        a = torch.rand(3, 2, generator=gen, dtype=torch.float64) * torch.tensor([scale, 0.02], dtype=torch.float64)
        b = a + 1e-3 * torch.rand(3, 2, generator=gen, dtype=torch.float64) * torch.tensor([scale, 0.02], dtype=torch.float64)
        for rtol, atol in ((1e-2, 1e-7), (1e-3, 1e-3)):
            tol = (rtol * torch.max(a.abs(), b.abs()) + atol).clamp_min(1e-7)
            want = (((a - b) / tol) ** 2).mean().sqrt().clamp_min(1e-7).item()
            got = AS.compute_error(a, b, rtol, atol)
            if abs(got - want) > 1e-9 * max(1.0, want):
                bad.append(('compute_error differs from the mixed rtol/atol RMS norm', scale, rtol, atol, got, want))
    for method, st, noise, dt_min in [(m_, s_, n_, q_) for (m_, s_, n_) in (('euler', 'ito', 'additive'), ('midpoint', 'stratonovich', 'diagonal'),
                                                                            ('reversible_heun', 'stratonovich', 'diagonal'), ('milstein', 'ito', 'diagonal'))
                                      for q_ in (1e-3, 4e-3, 1e-2, 2e-2)]:
        d = 2
        m = noise_m(noise, d)

        class Stiff(SDE):
            def f(self, t, y):
                return -40.0 * y + torch.sin(5 * t)
        sde = Stiff(noise, st, d)
        cls = M.select(method, st)
        calls = []
        orig = cls.step

        def rec(self, t0, t1, y0, extra0, _orig=orig):
            r = _orig(self, t0, t1, y0, extra0)
            calls.append((float(t0), float(t1), y0.clone(), tuple(e.clone() for e in extra0), r[0].clone(), tuple(e.clone() for e in r[1])))
            return r
        cls.step = rec
        try:
            y0 = torch.full((2, d), 0.5)
            ys = torchsde.sdeint(sde, y0, torch.tensor([0., 0.5, 1.0]), bm=bm_for(method, 2, m, 0., 1.), method=method, dt=0.2,
                                 adaptive=True, rtol=1e-3, atol=1e-3, dt_min=dt_min)
        finally:
            cls.step = orig
        if len(calls) % 3:
            bad.append((method, 'step calls not in groups of three', len(calls)))
            continue
        t, y, ex = 0.0, y0, calls[0][3]
        for k in range(0, len(calls), 3):
            full, h1, h2 = calls[k:k + 3]
            if abs(full[0] - t) > 1e-12:
                bad.append((method, 'trial does not start at the current time', full[0], t))
                break
            if full[1] - full[0] < dt_min * (1 - 1e-9) and abs(full[1] - 1.0) > 1e-12:
                bad.append((method, 'trial shorter than dt_min', full[1] - full[0]))
            if not torch.equal(full[2], y) or (ex is not None and any(not torch.equal(a, b) for a, b in zip(full[3], ex))):
                bad.append((method, 'trial starts from a state that is not the last accepted state', k // 3))
                break
            nxt = calls[k + 3][0] if k + 3 < len(calls) else 1.0
            if nxt > t + 1e-15:          # accepted
                t, y, ex = full[1], h2[4], h2[5]
        if abs(t - 1.0) > 1e-12:
            bad.append((method, 'does not end at ts[-1]', t))
        if (ys[-1] - y).abs().max().item() > 1e-12:
            bad.append((method, 'returned value is not the two-half-step value', (ys[-1] - y).abs().max().item()))
    return {'reproduced': bool(bad), 'detail': [str(b) for b in bad[:6]]}


def c07(args):
    """Solver-shaped histories and corner configurations must return normally (bounded so that the pinned tree needs ~10 s)."""
    import time
    import warnings
    bad = []

    def guarded(label, fn):
        try:
            with warnings.catch_warnings():
                warnings.simplefilter('ignore')
                fn()
        except (RecursionError, AttributeError, KeyError, ZeroDivisionError, IndexError, TypeError) as e:
            bad.append((label, type(e).__name__, str(e)[:80]))
    cfgs = [dict(), dict(cache_size=0), dict(cache_size=1), dict(cache_size=None), dict(dt=1e-3), dict(tol=1e-3, halfway_tree=True),
            dict(tol=1e-2, dt=1e-3, cache_size=1), dict(levy_area_approximation='space-time')]
    for kw in cfgs:
        _t = time.time()
        N = 300 if kw.get('halfway_tree') else (150 if kw.get('cache_size', 45) in (0, 1) and 'dt' not in kw else 2500)   # small caches: quadratic cost

        def run(kw=kw, N=N):
            bm = torchsde.BrownianInterval(0., 1., size=(1,), entropy=1, **kw)
            for k in range(N):
                bm(k / N, (k + 1) / N)
            for k in reversed(range(max(0, N - 100), N)):
                bm(k / N, (k + 1) / N)
            bm(0., 1. / N)
            if kw.get('tol'):
                bm(0.3, 0.3 + 1e-12)
            c = getattr(bm, '_increment_and_space_time_levy_area_cache', None)
            cs = kw.get('cache_size', 45)
            if cs is not None and c is not None and hasattr(c, '__len__') and len(c) > cs:
                bad.append((str(kw), 'cache holds more than cache_size entries', len(c)))
        guarded(str(kw), run)
        if args.get("timing"):
            print(kw, round(time.time() - _t, 2), flush=True)
    # end points that are not multiples of the tolerance; queries reaching both ends
    for (t0, t1, kw) in ((0.0004, 1.0006, dict(tol=1e-3)), (0.0004, 1.0006, dict(tol=1e-3, halfway_tree=True)), (0.1, 0.7000001, dict(tol=1e-6, dt=0.05))):
        def run(t0=t0, t1=t1, kw=kw):
            bm = torchsde.BrownianInterval(t0, t1, size=(1,), entropy=2, **kw)
            bm(t0, t1)
            bm(t0, 0.5 * (t0 + t1))
            bm(0.5 * (t0 + t1), t1)
        guarded(f'BrownianInterval({t0},{t1},{kw})', run)

    def backward_then_span():
        # many small backward steps over a fresh region with a coarse dt hint (the tree is not refined), then one query spanning them all
        bm = torchsde.BrownianInterval(0., 1., size=(1,), entropy=1, dt=0.5)
        a, N = 0.5625, 800
        h = (1.0 - a) / N
        for k in reversed(range(N)):
            bm(a + k * h, a + (k + 1) * h)
        bm(a, 1.0)
    guarded('backward steps then a spanning query (dt hint 0.5)', backward_then_span)

    def tree():
        bt = torchsde.BrownianTree(0., torch.zeros(1), t1=2. / 3.)
        bt(2. / 3.)
        bt(0.)
        bt(1. / 3.)
    guarded('BrownianTree(t1=2/3)', tree)

    def path():
        bp = torchsde.BrownianPath(0., torch.zeros(1))
        for k in range(1200):
            bp(k / 1200.)
    guarded('BrownianPath point evaluations', path)
    return {'reproduced': bool(bad), 'detail': [str(b) for b in bad[:6]]}


def c19(args):
    """Replay one cell of the configuration matrix natively."""
    st, noise, method = args['sde_type'], args['noise'], args['method']
    levy, adaptive, logqp = args.get('bm'), args.get('adaptive', False), args.get('logqp', False)
    d = 3
    m = d if noise == 'diagonal' else (1 if noise == 'scalar' else 2)

    class S(torch.nn.Module):
        noise_type, sde_type = noise, st

        def f(self, t, y):
            return -y

        def g(self, t, y):
            return torch.ones(y.shape[0], d) if noise == 'diagonal' else torch.ones(y.shape[0], d, m)

        def h(self, t, y):
            return -0.5 * y
    mb = (d + 1 if noise == 'diagonal' else m) if logqp else m
    bm = None if levy in (None, 'None') else torchsde.BrownianInterval(0., 1., size=(2, mb), levy_area_approximation=levy)
    try:
        if args.get('entry') == 'sdeint_adjoint':
            torchsde.sdeint_adjoint(S(), torch.ones(2, d), torch.tensor([0., 1.]), bm=bm, method=None if method in (None, 'None') else method,
                                    dt=0.5, adaptive=adaptive, logqp=logqp, adjoint_params=())
        else:
            torchsde.sdeint(S(), torch.ones(2, d), torch.tensor([0., 1.]), bm=bm, method=None if method in (None, 'None') else method,
                            dt=0.5, adaptive=adaptive, logqp=logqp)
        outcome = 'integrated'
    except Exception as e:
        outcome = type(e).__name__
    want = args.get('documented')
    bad = (outcome == 'integrated') != bool(want) or (not want and outcome != 'ValueError')
    return {'reproduced': bool(bad), 'detail': {'cell': args, 'outcome': outcome}}


def c19adj(args):
    """One cell of the adjoint matrix: sdeint_adjoint + backward; records the solvers that are constructed."""
    from torchsde._core import methods as M
    st, noise, fm, am = args['sde_type'], args['noise'], args['method'], args['adjoint_method']
    sde = SDE(noise, st, 2)
    m = noise_m(noise, 2)
    chosen = []
    orig = M.select

    def rec(method, sde_type):
        chosen.append(method)
        return orig(method=method, sde_type=sde_type)
    M.select = rec
    import torchsde._core.adjoint as ADJ
    ADJ.methods.select = rec
    outcome = 'integrated'
    try:
        y0 = torch.full((2, 2), 0.5, requires_grad=True)
        import warnings
        with warnings.catch_warnings():
            warnings.simplefilter('ignore')
            ys = torchsde.sdeint_adjoint(sde, y0, torch.tensor([0., 0.5, 1.]), bm=bm_for(fm, 2, m, 0., 1.), method=fm, adjoint_method=am, dt=0.25)
            ys.sum().backward()
    except Exception as e:
        outcome = type(e).__name__
    finally:
        M.select = orig
        ADJ.methods.select = orig
    used = chosen[1] if len(chosen) > 1 else None
    bad = (used is not None and used != am) or (outcome == 'integrated' and not args.get('admissible', True))
    return {'reproduced': bool(bad), 'detail': {'cell': args, 'outcome': outcome, 'solvers constructed': chosen}}


def c01(args):
    """Empirical strong order against the exact solution of  dX = a X dt + (alpha + beta t) X dW  (diagonal noise, explicit time dependence),
    driven by the same Brownian path (W_T and U_T = int W ds from the BrownianInterval): least-squares slope over dt = 2^-3 .. 2^-7."""
    import math
    from torchsde._core import methods as M
    a, alpha, beta, T, Bn, d = -0.5, 0.4, 1.0, 1.0, 4096, 2
    only = args.get('method')
    bad, seen = [], []
    for method, st in (('euler', 'ito'), ('milstein', 'ito'), ('srk', 'ito'), ('milstein', 'stratonovich'), ('heun', 'stratonovich'),
                       ('midpoint', 'stratonovich'), ('euler_heun', 'stratonovich'), ('reversible_heun', 'stratonovich'), ('log_ode', 'stratonovich'),
                       ('milstein[grad_free]', 'ito'), ('milstein[grad_free]', 'stratonovich')):
        # (the diffusion is linear in the state, so the known finding on grad-free Stratonovich Milstein, which needs g'' != 0, does not show here)
        options = {'grad_free': True} if method.endswith('[grad_free]') else {}
        method = method.split('[')[0]
        if only and method != only:
            continue

        class S(torch.nn.Module):
            noise_type, sde_type = 'diagonal', st

            def f(self, t, y):
                return a * y

            def g(self, t, y):
                return (alpha + beta * t) * y
        levy = 'foster' if method == 'log_ode' else 'space-time'
        bm = torchsde.BrownianInterval(0., T, size=(Bn, d), dtype=torch.float64, levy_area_approximation=levy, entropy=11)
        W, U = bm(0., T, return_U=True)
        isq = alpha ** 2 * T + alpha * beta * T ** 2 + beta ** 2 * T ** 3 / 3.
        idw = alpha * W + beta * (T * W - U)
        x0 = torch.ones(Bn, d, dtype=torch.float64)
        truth = x0 * torch.exp(a * T - (0.5 * isq if st == 'ito' else 0.0) + idw)
        errs, dts = [], [2.0 ** -k for k in range(3, 8)]
        sde = S()
        for dt in dts:
            with torch.no_grad():
                ys = torchsde.sdeint(sde, x0, torch.tensor([0., T], dtype=torch.float64), bm=bm, method=method, dt=dt, options=options)
            errs.append(((ys[-1] - truth) ** 2).sum(1).mean().sqrt().item())
        xs, ysl = [math.log(v) for v in dts], [math.log(v) for v in errs]
        mx, my = sum(xs) / len(xs), sum(ysl) / len(ysl)
        slope = sum((x - mx) * (y - my) for x, y in zip(xs, ysl)) / sum((x - mx) ** 2 for x in xs)
        cls = M.select(method, st)
        from torchsde._core.base_sde import ForwardSDE
        adv = cls(sde=ForwardSDE(sde), bm=bm, dt=0.1, adaptive=False, rtol=1e-3, atol=1e-3, dt_min=1e-5, options=dict(options)).strong_order
        seen.append((method + ('[grad_free]' if options else ''), st, adv, round(slope, 3)))
        if slope < adv - 0.3:
            bad.append((method + ('[grad_free]' if options else ''), st, 'advertised', adv, 'empirical', round(slope, 3)))
    return {'reproduced': bool(bad), 'detail': {'slower than advertised': [str(b) for b in bad], 'all': [str(x) for x in seen]}}


def c19grad(args):
    """A tolerance / step / time argument that requires grad must be refused with ValueError by the named entry point."""
    entry, which = args.get('entry', 'sdeint'), args.get('which', 'dt')
    sde = SDE('diagonal', 'ito', 2)
    kw = dict(dt=0.25, rtol=1e-3, atol=1e-3, dt_min=1e-5)
    ts = torch.tensor([0., 0.5, 1.])
    if which == 'ts':
        ts = ts.clone().requires_grad_()
    else:
        if which.startswith('adjoint_'):
            kw[which] = torch.tensor(1e-3, requires_grad=True)
        else:
            kw[which] = torch.tensor(kw[which], requires_grad=True)
    y0 = torch.full((2, 2), 0.5)
    try:
        if entry == 'sdeint_adjoint':
            torchsde.sdeint_adjoint(sde, y0, ts, method='euler', **kw)
        else:
            torchsde.sdeint(sde, y0, ts, method='euler', **kw)
        outcome = 'integrated'
    except Exception as e:
        outcome = type(e).__name__
    return {'reproduced': outcome != 'ValueError', 'detail': {'entry': entry, 'argument requiring grad': which, 'outcome': outcome}}


def c16rename(args):
    """RenameMethodsSDE with the names mapping of the counterexample: every slot must be the user's method of that source name."""
    from torchsde._core.base_sde import RenameMethodsSDE
    canon = ('f', 'g', 'h', 'g_prod', 'f_and_g', 'f_and_g_prod')
    kws = ('drift', 'diffusion', 'prior_drift', 'diffusion_prod', 'drift_and_diffusion', 'drift_and_diffusion_prod')
    user = torch.nn.Module()
    user.noise_type, user.sde_type = 'diagonal', 'ito'
    for n in canon + ('mu', 'sigma', 'nu', 'sig_prod', 'mu_sigma', 'mu_sigma_prod'):
        setattr(user, n, (lambda tag: (lambda *a: tag))(n))
    names = args.get('names', {})
    r = RenameMethodsSDE(user, **names)
    bad = []
    for slot, kw in zip(canon, kws):
        src = names.get(kw, slot)
        want = getattr(user, src, None)
        got = r.__dict__.get(slot, None)
        if got is not want:
            bad.append({'slot': slot, 'source name': src, 'bound to': None if got is None else got(), 'should be': None if want is None else want()})
    return {'reproduced': bool(bad), 'detail': {'names': names, 'wrong slots': bad}}


def c16(args):
    bad = []
    for noise in ('diagonal', 'general'):
        for method, st in (('euler', 'ito'), ('milstein', 'ito'), ('heun', 'stratonovich'), ('euler_heun', 'stratonovich'), ('reversible_heun', 'stratonovich')):
            if method == 'milstein' and noise == 'general':
                continue
            base = SDE(noise, st, 2)
            m = noise_m(noise, 2)

            def prod(g, v):
                return g * v if noise == 'diagonal' else torch.bmm(g, v.unsqueeze(-1)).squeeze(-1)
            variants = {
                'f+g': dict(f=base.f, g=base.g),
                'f_and_g': dict(f_and_g=lambda t, y: (base.f(t, y), base.g(t, y))),
                'f+g_prod': dict(f=base.f, g_prod=lambda t, y, v: prod(base.g(t, y), v)),
                'f_and_g_prod': dict(f_and_g_prod=lambda t, y, v: (base.f(t, y), prod(base.g(t, y), v))),
                'renamed': dict(foo=base.f, bar=base.g),
            }
            ref = None
            for name, meths in variants.items():
                obj = torch.nn.Module()
                obj.noise_type, obj.sde_type = noise, st
                for k, v in meths.items():
                    setattr(obj, k, v)
                try:
                    ys = torchsde.sdeint(obj, torch.full((2, 2), 0.5), torch.tensor([0., 0.5, 1.]), bm=bm_for(method, 2, m, 0., 1.), method=method, dt=0.25,
                                         names={'drift': 'foo', 'diffusion': 'bar'} if name == 'renamed' else None)
                except RuntimeError as e:
                    if 'has not been provided' in str(e):
                        continue
                    bad.append((noise, method, name, 'RuntimeError', str(e)[:60]))
                    continue
                except Exception as e:
                    bad.append((noise, method, name, type(e).__name__, str(e)[:60]))
                    continue
                if ref is None:
                    ref = ys
                elif not torch.equal(ref, ys):
                    bad.append((noise, method, name, 'different solution', (ref - ys).abs().max().item()))
    # derived operators against their definitions (explicit Jacobians)
    from torchsde._core.base_sde import ForwardSDE
    for noise in ('diagonal', 'general', 'scalar', 'additive'):
        base = SDE(noise, 'ito', 2).double()
        m = noise_m(noise, 2)
        fs = ForwardSDE(base)
        gen = torch.Generator().manual_seed(5)
        y = torch.rand(3, 2, generator=gen, dtype=torch.float64, requires_grad=True)
        v1 = torch.rand(3, m, generator=gen, dtype=torch.float64)
        v2 = torch.rand(3, m, generator=gen, dtype=torch.float64)
        t = torch.tensor(0.3, dtype=torch.float64)

        def G(yy):
            g = base.g(t, yy)
            return torch.diag_embed(g) if noise == 'diagonal' else g
        g3 = G(y)
        J = torch.stack([torch.autograd.functional.jacobian(lambda yy: G(yy.unsqueeze(0))[0], y[b].detach()) for b in range(3)])  # (B, d, m, d)
        want_gp = torch.einsum('bij,bj->bi', g3, v1)
        want_gdg = torch.einsum('bijk,bkj,bj->bi', J, g3, v2)
        got_gp, got_gdg = fs.g_prod_and_gdg_prod(t, y, v1, v2)
        if (got_gp - want_gp).abs().max().item() > 1e-10:
            bad.append((noise, 'g_prod differs from g v', (got_gp - want_gp).abs().max().item()))
        got_gdg = got_gdg if torch.is_tensor(got_gdg) else torch.zeros_like(want_gdg)
        if (got_gdg - want_gdg).abs().max().item() > 1e-10:
            bad.append((noise, 'g dg v differs from sum_jk dg_ij/dy_k g_kj v_j', (got_gdg - want_gdg).abs().max().item()))
        if noise == 'general':
            a = torch.rand(3, m, m, generator=gen, dtype=torch.float64)
            want = torch.einsum('bijk,bkl,blj->bi', J, g3, a)
            for nm in ('dg_ga_jvp_column_sum_v1', 'dg_ga_jvp_column_sum_v2'):
                got = getattr(fs, nm)(t, y, a)
                if (got - want).abs().max().item() > 1e-10:
                    bad.append((noise, nm + ' differs from its definition', (got - want).abs().max().item()))
    return {'reproduced': bool(bad), 'detail': [str(b) for b in bad[:6]]}


RECIPES = {'c19grad': c19grad, 'c09iso': c09iso, 'c11': c11, 'c04': c04, 'c09': c09, 'c01': c01, 'c16rename': c16rename, 'c19adj': c19adj, 'c15': c15, 'c17': c17, 'c20': c20, 'c08': c08, 'c18': c18, 'c14': c14, 'c07': c07, 'c19': c19, 'c16': c16, 'c10': c10, 'c03': c03, 'c06': c06, 'history': history, 'linear_interp': linear_interp, 'c12': c12, 'c13': c13}

if __name__ == '__main__':
    name = sys.argv[1]
    args = json.loads(sys.argv[2]) if len(sys.argv) > 2 else {}
    try:
        out = RECIPES[name](args)
    except Exception as e:  # a crash of the real code on the replayed input is a reproduction only for crash recipes
        out = {'reproduced': False, 'error': f'{type(e).__name__}: {e}'}
    print(json.dumps(out, default=str))
