#!/venv/bin/python
"""Native replay harnesses (run with /venv/bin/python against /repo). They are used only to CONFIRM a
counter-model produced by the verifier: each prints one JSON object {"reproduced": bool, "detail": ...}.
usage: native.py <recipe> [json-args]"""
import json
import math
import sys
import warnings

warnings.simplefilter('ignore')
sys.path.insert(0, '/repo')
import torch  # noqa: E402
import torchsde  # noqa: E402

torch.set_default_dtype(torch.float64)


class RecordingBM:
    def __init__(self, bm):
        self.bm = bm
        self.q = []

    def __call__(self, ta, tb=None, return_U=False, return_A=False):
        self.q.append((float(ta), float(tb)))
        return self.bm(ta, tb, return_U=return_U, return_A=return_A)

    def __getattr__(self, n):
        return getattr(self.bm, n)


class SDE(torch.nn.Module):
    def __init__(self, noise_type='diagonal', sde_type='ito', d=2):
        super().__init__()
        self.noise_type = noise_type
        self.sde_type = sde_type
        self.d = d
        self.a = torch.nn.Parameter(torch.tensor(0.3))

    def f(self, t, y):
        return -self.a * y + torch.sin(t + y)

    def g(self, t, y):
        if self.noise_type == 'diagonal':
            return 0.3 + 0.2 * torch.cos(y)
        if self.noise_type == 'additive':
            return (0.2 + 0.1 * torch.sin(t)).expand(y.shape[0], self.d, 2) * torch.ones(y.shape[0], self.d, 2)
        if self.noise_type == 'scalar':
            return (0.3 + 0.2 * torch.cos(y)).unsqueeze(-1)
        return torch.stack([0.3 + 0.2 * torch.cos(y), 0.1 * y], dim=-1)


def noise_m(noise, d):
    return {'diagonal': d, 'additive': 2, 'scalar': 1, 'general': 2}[noise]


def bm_for(method, B, m, t0, t1):
    levy = 'space-time' if method == 'srk' else ('foster' if method == 'log_ode' else 'none')
    return torchsde.BrownianInterval(t0, t1, size=(B, m), entropy=123, levy_area_approximation=levy, dtype=torch.float64)


CONFIGS = [('euler', 'ito', 'diagonal'), ('milstein', 'ito', 'diagonal'), ('srk', 'ito', 'additive'),
           ('midpoint', 'stratonovich', 'general'), ('heun', 'stratonovich', 'scalar'),
           ('reversible_heun', 'stratonovich', 'diagonal'), ('euler_heun', 'stratonovich', 'diagonal')]


def linear_interp(args):
    from torchsde._core import interp
    t0, y0, t1, y1, t = (float(args[k]) for k in ('t0', 'y0', 't1', 'y1', 't'))
    try:
        got = float(interp.linear_interp(t0=t0, y0=torch.tensor(y0), t1=t1, y1=torch.tensor(y1), t=t))
    except AssertionError:
        return {'reproduced': False, 'detail': 'assertion (outside precondition)'}
    want = y0 + (t - t0) / (t1 - t0) * (y1 - y0)
    bad = abs(got - want) > 1e-9 * max(1.0, abs(want))
    return {'reproduced': bad, 'detail': {'args': [t0, y0, t1, y1, t], 'got': got, 'want': want}}


def c12(args):
    """Grid / interpolation / output-time invariance on concrete runs."""
    bad = []
    for (method, st, noise) in CONFIGS:
        for (t0, t1, dt, inner) in [(0., 1., 0.4, [0.3]), (0., 1., 0.25, [0.1, 0.15, 0.5]), (20., 21., 0.001, [20.0059, 20.5001]),
                                    (0., 2., 0.3, [0.3, 0.31, 1.7])]:
            d = 2
            sde = SDE(noise, st, d)
            y0 = torch.full((3, d), 0.5)
            m = noise_m(noise, d)
            bm = RecordingBM(bm_for(method, 3, m, t0, t1))
            ts_full = torch.tensor([t0] + inner + [t1])
            ys_full = torchsde.sdeint(sde, y0, ts_full, bm=bm, method=method, dt=dt)
            grid = [bm.q[0][0]] + [q[1] for q in bm.q]
            # expected grid
            exp = [t0]
            while exp[-1] < t1:
                exp.append(min(exp[-1] + dt, t1))
            if len(grid) != len(exp) or any(abs(a - b) > 1e-9 for a, b in zip(grid, exp)):
                bad.append((method, 'grid', t0, t1, dt, grid[:5], exp[:5]))
                continue
            if not torch.equal(ys_full[0], y0):
                bad.append((method, 'ys[0]!=y0'))
            # grid states by asking for all grid times
            bm2 = bm_for(method, 3, m, t0, t1)
            ys_grid = torchsde.sdeint(sde, y0, torch.tensor(exp), bm=bm2, method=method, dt=dt)
            for j, tau in enumerate(ts_full.tolist()[1:], 1):
                k = next(i for i in range(1, len(exp)) if exp[i - 1] < tau <= exp[i] + 1e-15)
                a, b = exp[k - 1], exp[k]
                want = ys_grid[k - 1] + (tau - a) / (b - a) * (ys_grid[k] - ys_grid[k - 1])
                err = (ys_full[j] - want).abs().max().item()
                scale = (ys_grid[k] - ys_grid[k - 1]).abs().max().item() + 1e-12
                if err > 1e-7 * max(1.0, scale / 1e-3) and err > 1e-9:
                    bad.append((method, 'interp', tau, err, scale))
            # output-time invariance
            bm3 = bm_for(method, 3, m, t0, t1)
            ys_ends = torchsde.sdeint(sde, y0, torch.tensor([t0, t1]), bm=bm3, method=method, dt=dt)
            if (ys_ends[-1] - ys_full[-1]).abs().max().item() > 1e-10:
                bad.append((method, 'invariance', (ys_ends[-1] - ys_full[-1]).abs().max().item()))
    return {'reproduced': bool(bad), 'detail': bad[:6]}


def c13(args):
    bad = []
    for (method, st, noise) in CONFIGS:
        for (t0, t2, dt) in [(0., 1., 0.1), (0.3, 1.7, 0.07), (0., 1., 0.125)]:
            d = 2
            sde = SDE(noise, st, d)
            y0 = torch.full((2, d), 0.5)
            m = noise_m(noise, d)
            bm = RecordingBM(bm_for(method, 2, m, t0, t2))
            kw = dict(method=method, dt=dt, extra=True)
            ys, extra = torchsde.sdeint(sde, y0, torch.tensor([t0, t2]), bm=bm, **kw)
            grid = [bm.q[0][0]] + [q[1] for q in bm.q]
            for k1 in range(1, len(grid) - 1):
                t1 = grid[k1]
                ya, ea = torchsde.sdeint(sde, y0, torch.tensor([t0, t1]), bm=bm.bm, **kw)
                yb, eb = torchsde.sdeint(sde, ya[-1], torch.tensor([t1, t2]), bm=bm.bm, extra_solver_state=ea, **kw)
                if not torch.equal(yb[-1], ys[-1]) or any(not torch.equal(a, b) for a, b in zip(eb, extra)):
                    bad.append((method, noise, t0, t2, dt, k1, (yb[-1] - ys[-1]).abs().max().item()))
                    break
    return {'reproduced': bool(bad), 'detail': bad[:6]}


def c10(args):
    bad = []
    for noise in ('diagonal', 'additive', 'scalar', 'general'):
        d = 2
        m = noise_m(noise, d)
        ts = torch.tensor([0., 0.5, 1.0, 1.5])
        for wts in ([1., 1., 1., 1.], [0., 1., 0., 0.], [0., 0.3, 1., 0.], [0.5, 0., 0., 2.]):
            grads = []
            for adjoint in (False, True):
                sde = SDE(noise, 'stratonovich', d)
                y0 = torch.full((2, d), 0.5, requires_grad=True)
                bm = torchsde.BrownianInterval(0., 1.5, size=(2, m), entropy=7, dtype=torch.float64)
                if adjoint:
                    ys = torchsde.sdeint_adjoint(sde, y0, ts, bm=bm, method='reversible_heun', adjoint_method='adjoint_reversible_heun', dt=0.125)
                else:
                    ys = torchsde.sdeint(sde, y0, ts, bm=bm, method='reversible_heun', dt=0.125)
                loss = sum(w * (ys[i] ** 2).sum() for i, w in enumerate(wts))
                g = torch.autograd.grad(loss, [y0] + list(sde.parameters()))
                grads.append(torch.cat([x.reshape(-1) for x in g]))
            rel = ((grads[0] - grads[1]).abs().max() / grads[0].abs().max().clamp_min(1e-12)).item()
            if rel > 1e-9:
                bad.append((noise, wts, rel))
    return {'reproduced': bool(bad), 'detail': bad[:6]}


def _bm_configs():
    out = []
    for (t0, t1) in ((-1., 1.), (0., 2.)):
        for levy in ('none', 'space-time', 'davie'):
            for kw in (dict(), dict(cache_size=1), dict(dt=0.05), dict(tol=1e-3, halfway_tree=True)):
                if levy == 'davie' and kw:
                    continue
                out.append((t0, t1, levy, kw))
    return out


def c03(args):
    """Chen / additivity / repeated-query consistency after solver-shaped and random histories."""
    import random
    bad = []
    for (t0, t1, levy, kw) in _bm_configs():
        rnd = random.Random(5)
        bm = torchsde.BrownianInterval(t0, t1, size=(2, 2), entropy=11, levy_area_approximation=levy, dtype=torch.float64, **kw)
        grid = [round(t0 + k * (t1 - t0) / 20, 6) for k in range(21)]
        seen = {}
        def q(a, b):
            r = bm(a, b, return_U=(levy != 'none'))
            return r if isinstance(r, tuple) else (r, None)
        history = [(grid[k], grid[k + 1]) for k in range(0, 20, 3)] + [(0.0 if t0 < 0 else 1.0, t1 * 0.5 + 0.25)]
        for _ in range(15):
            a, b = sorted(rnd.sample(grid, 2))
            history.append((a, b))
        for (a, b) in history:
            W, U = q(a, b)
            key = (a, b)
            if key in seen and not torch.equal(seen[key][0], W):
                bad.append(('repeat', t0, t1, levy, kw, a, b, (seen[key][0] - W).abs().max().item()))
            seen[key] = (W, U)
            s_, u_, t_ = sorted(rnd.sample(grid, 3))
            Wst, Ust = q(s_, t_)
            Wsu, Usu = q(s_, u_)
            Wut, Uut = q(u_, t_)
            if (Wst - Wsu - Wut).abs().max().item() > 1e-9:
                bad.append(('additivity', t0, t1, levy, kw, s_, u_, t_, (Wst - Wsu - Wut).abs().max().item()))
            if Ust is not None and (Ust - Usu - Uut - (t_ - u_) * Wsu).abs().max().item() > 1e-9:
                bad.append(('chen-U', t0, t1, levy, kw, s_, u_, t_))
            # values returned earlier must still be consistent with what is returned now
            for (a2, b2), (W2, U2) in list(seen.items())[-3:]:
                W3, U3 = q(a2, b2)
                if not torch.equal(W3, W2):
                    bad.append(('history-dependence', t0, t1, levy, kw, a2, b2, (W3 - W2).abs().max().item()))
            if len(bad) > 5:
                break
        z = bm(grid[3], grid[3])
        if isinstance(z, torch.Tensor) and z.abs().max().item() != 0:
            bad.append(('zero-length', t0, t1, levy, kw))
    return {'reproduced': bool(bad), 'detail': [str(b) for b in bad[:6]]}


def c06(args):
    bad = []
    # same entropy, same queries -> identical; dyadic mode: history independence
    for kw in (dict(), dict(levy_area_approximation='space-time'), dict(tol=1e-3, halfway_tree=True), dict(cache_size=1)):
        a = torchsde.BrownianInterval(0., 1., size=(2, 2), entropy=3, dtype=torch.float64, **kw)
        b = torchsde.BrownianInterval(0., 1., size=(2, 2), entropy=3, dtype=torch.float64, **kw)
        for (s_, t_) in [(0.1, 0.4), (0.3, 0.9), (0.1, 0.4), (0., 1.), (0.25, 0.75)]:
            if not torch.equal(a(s_, t_), b(s_, t_)):
                bad.append(('same-entropy', kw, s_, t_))
    w0 = torch.tensor([[0.7, -0.3]], dtype=torch.float64)
    for hist in ([], [('p', 1.0)], [('p', 0.5), ('p', 0.5)], [('i', 0.1, 0.9)], [('p', 0.25), ('i', 0.5, 1.0)]):
        t = torchsde.BrownianTree(0., w0, t1=1., entropy=5, tol=1e-6)
        for h in hist:
            t(h[1]) if h[0] == 'p' else t(h[1], h[2])
        fresh = torchsde.BrownianTree(0., w0, t1=1., entropy=5, tol=1e-6)
        for (s_, t_) in [(0.25, 0.75), (0., 0.5), (0.5, 1.0)]:
            d = (t(s_, t_) - fresh(s_, t_)).abs().max().item()
            if d > 1e-12:
                bad.append(('history-dependence', hist, s_, t_, d))
        p1, p2 = t(0.5), t(0.5)
        if not torch.equal(p1, p2):
            bad.append(('point-query-not-repeatable', hist))
    return {'reproduced': bool(bad), 'detail': [str(b) for b in bad[:6]]}


def history(args):
    """Replay a counter-model of the history stand-in: queries q0, q1, ..., then q0 again, on BrownianInterval(t0, t1)."""
    qs = args['queries']
    bad = []
    for levy in ('none', 'space-time'):
        for kw in (dict(cache_size=0), dict(cache_size=None), dict(cache_size=1)):
            bm = torchsde.BrownianInterval(args.get('t0', -1.), args.get('t1', 1.), size=(2,), entropy=9, levy_area_approximation=levy,
                                           dtype=torch.float64, **kw)
            ru = levy != 'none'
            first = bm(qs[0][0], qs[0][1], return_U=ru)
            for (a, b) in qs[1:]:
                bm(a, b, return_U=ru)
            again = bm(qs[0][0], qs[0][1], return_U=ru)
            f = first if isinstance(first, tuple) else (first,)
            g = again if isinstance(again, tuple) else (again,)
            if any(not torch.equal(x, y) for x, y in zip(f, g)):
                bad.append((levy, kw, [(x - y).abs().max().item() for x, y in zip(f, g)]))
    return {'reproduced': bool(bad), 'detail': {'queries': qs, 'mismatches': [str(b) for b in bad[:4]]}}


RECIPES = {'c10': c10, 'c03': c03, 'c06': c06, 'history': history, 'linear_interp': linear_interp, 'c12': c12, 'c13': c13}

if __name__ == '__main__':
    name = sys.argv[1]
    args = json.loads(sys.argv[2]) if len(sys.argv) > 2 else {}
    try:
        out = RECIPES[name](args)
    except Exception as e:  # a crash of the real code on the replayed input is a reproduction only for crash recipes
        out = {'reproduced': False, 'error': f'{type(e).__name__}: {e}'}
    print(json.dumps(out, default=str))
