"""Adaptive arm of BaseSDESolver.integrate: loop invariants for C14.

Ghost: k accepted steps; arrays AT (times), AY (states), AE (extras) of the accepted trajectory.
acc(j): AT[j] < AT[j+1] <= ts[-1] and (AY[j+1], AE[j+1]) is the two-half-step result from (AT[j], AY[j], AE[j]).
"""
import z3

from pyvc.contract import Contract, LoopSpec
from pyvc.values import SV, SB, Opaque, OptVal, Unsupported, to_z3
from pyvc import interp as I
from contracts.integrate import (TS, XS, R, Z, STEP_Y, STEP_E, INTERP, ERR, SymSeq, SymList, Stacked)
from contracts.integrate_loops import TSF

RA = z3.ArraySort(Z, R)


def two_half(t, t1, y, e):
    m = z3.RealVal('1/2') * (t + t1)
    ym, em = STEP_Y(t, m, y, e), STEP_E(t, m, y, e)
    return STEP_Y(m, t1, ym, em), STEP_E(m, t1, ym, em)


class AGhost:
    def __init__(self, cx):
        self.n = cx.fresh('n', Z)
        self.dt = cx.fresh('dt')
        self.dt_min = cx.fresh('dt_min')
        self.y0 = cx.fresh('y0', TS)
        self.e0 = cx.fresh('extra0', XS)
        self.k = z3.IntVal(0)
        self.AT = cx.fresh('AT', RA)
        self.AY = cx.fresh('AY', z3.ArraySort(Z, TS))
        self.AE = cx.fresh('AE', z3.ArraySort(Z, XS))
        self.init = z3.And(self.AT[0] == TSF(z3.IntVal(0)), self.AY[0] == self.y0, self.AE[0] == self.e0)
        self.kap = z3.K(Z, z3.IntVal(0))
        self.count_steps = False

    def ts0(self):
        return TSF(z3.IntVal(0))

    def tsN(self):
        return TSF(self.n - 1)

    def ts_axioms(self):
        i, j = z3.Ints('i_ j_')
        return z3.And(self.n >= 1, z3.ForAll([i, j], z3.Implies(z3.And(0 <= i, i < j, j < self.n), TSF(i) < TSF(j)),
                                             patterns=[z3.MultiPattern(TSF(i), TSF(j))]))

    def acc(self, j):
        AT, AY, AE = self.AT, self.AY, self.AE
        y, e = two_half(AT[j], AT[j + 1], AY[j], AE[j])
        return z3.And(AT[j] < AT[j + 1], AT[j + 1] <= self.tsN(), AY[j + 1] == y, AE[j + 1] == e)

    def fresh_arrays(self, cx):
        self.k = cx.fresh('k', Z)
        self.AT = cx.fresh('AT', RA)
        self.AY = cx.fresh('AY', z3.ArraySort(Z, TS))
        self.AE = cx.fresh('AE', z3.ArraySort(Z, XS))


def common_inv(gh, env, i, with_outputs=True):
    k = gh.k
    AT, AY, AE = gh.AT, gh.AY, gh.AE
    j = z3.Int('j_')
    per = env['prev_error_ratio']
    per_ok = z3.BoolVal(True)
    if isinstance(per, OptVal):
        per_ok = z3.Or(per.isnone, to_z3(per.val) > 0)
    out = [
        ('k>=0', k >= 0),
        ('AT[0]', z3.And(AT[0] == gh.ts0(), AY[0] == gh.y0, AE[0] == gh.e0)),
        ('curr=A(k)', z3.And(to_z3(env['curr_t']) == AT[k], env['curr_y'].e == AY[k], env['curr_extra'].e == AE[k])),
        ('prev.k=0', z3.Implies(k == 0, z3.And(to_z3(env['prev_t']) == gh.ts0(), env['prev_y'].e == gh.y0))),
        ('prev.k>0', z3.Implies(k >= 1, z3.And(to_z3(env['prev_t']) == AT[k - 1], env['prev_y'].e == AY[k - 1]))),
        ('inside', z3.And(gh.ts0() <= AT[k], AT[k] <= gh.tsN())),
        ('accepted-steps', z3.ForAll([j], z3.Implies(z3.And(0 <= j, j < k), gh.acc(j)), patterns=[AT[j + 1]])),
        ('step_size>=dt_min', to_z3(env['step_size']) >= gh.dt_min),
        ('prev_error_ratio', per_ok),
    ]
    return out


class AdaptiveOuter(LoopSpec):
    modifies = ('next_t', 'prev_t', 'prev_y', 'curr_t', 'curr_y', 'curr_extra', 'ys',
                'next_y_full', '_', 'midpoint_t', 'midpoint_y', 'midpoint_extra', 'next_y', 'next_extra',
                'error_estimate', 'step_size', 'prev_error_ratio')

    def __init__(self, gh):
        self.gh = gh

    def seq_len(self, E, cx, it):
        return SV(it.length())

    def seq_get(self, E, cx, it, i):
        return it.get(i)

    def havoc(self, E, cx, env, entry):
        gh = self.gh
        gh.fresh_arrays(cx)
        gh.kap = cx.fresh('kap', z3.ArraySort(Z, Z))
        ys = SymList(cx.fresh('ys_len', Z), cx.fresh('ys', z3.ArraySort(Z, TS)))
        return {
            'prev_t': SV(cx.fresh('prev_t')), 'prev_y': Opaque(cx.fresh('prev_y', TS)),
            'curr_t': SV(cx.fresh('curr_t')), 'curr_y': Opaque(cx.fresh('curr_y', TS)),
            'curr_extra': Opaque(cx.fresh('curr_extra', XS)), 'ys': ys,
            'step_size': SV(cx.fresh('step_size')),
            'prev_error_ratio': OptVal(cx.fresh('per_none', z3.BoolSort()), SV(cx.fresh('per'))),
        }

    def prepare(self, env):
        ys = env['ys']
        if isinstance(ys, list):
            arr = z3.K(Z, self.gh.y0)
            for i, x in enumerate(ys):
                arr = z3.Store(arr, i, x.e)
            env['ys'] = SymList(z3.IntVal(len(ys)), arr)
        if env.get('prev_error_ratio') is None:
            env['prev_error_ratio'] = OptVal(z3.BoolVal(True), SV(z3.RealVal(1)))

    def inv(self, E, cx, env, entry):
        self.prepare(env)
        gh = self.gh
        i = to_z3(env[self.index_name])
        k = gh.k
        ys = env['ys']
        AT, AY = gh.AT, gh.AY
        kap = gh.kap
        j = z3.Int('j_')
        out = common_inv(gh, env, i)
        out += [
            ('len(ys)', ys.n == i + 1),
            ('ys[0]=y0', z3.Select(ys.arr, 0) == gh.y0),
            ('last-output-in-current-step', z3.Implies(i >= 1, z3.And(k >= 1, AT[k - 1] < TSF(i), TSF(i) <= AT[k]))),
            ('k=0-before-first-output', z3.Implies(i == 0, k == 0)),
            ('outputs', z3.ForAll([j], z3.Implies(
                z3.And(1 <= j, j <= i),
                z3.And(1 <= kap[j], kap[j] <= k, AT[kap[j] - 1] < TSF(j), TSF(j) <= AT[kap[j]],
                       z3.Select(ys.arr, j) == INTERP(AT[kap[j] - 1], AY[kap[j] - 1], AT[kap[j]], AY[kap[j]], TSF(j)))),
                patterns=[z3.Select(ys.arr, j)])),
        ]
        return out

    def ghost_step(self, E, cx, env, entry):
        gh = self.gh
        i = to_z3(env[self.index_name])
        gh.kap = z3.Store(gh.kap, i, gh.k)


class AdaptiveInner(LoopSpec):
    modifies = AdaptiveOuter.modifies

    def __init__(self, gh):
        self.gh = gh

    def havoc(self, E, cx, env, entry):
        gh = self.gh
        # the accepted prefix known at loop entry must be preserved: fresh arrays are constrained by `extends`
        self.entry_arrays = (gh.k, gh.AT, gh.AY, gh.AE)
        gh.fresh_arrays(cx)
        return {
            'prev_t': SV(cx.fresh('prev_t')), 'prev_y': Opaque(cx.fresh('prev_y', TS)),
            'curr_t': SV(cx.fresh('curr_t')), 'curr_y': Opaque(cx.fresh('curr_y', TS)),
            'curr_extra': Opaque(cx.fresh('curr_extra', XS)),
            'step_size': SV(cx.fresh('step_size')),
            'prev_error_ratio': OptVal(cx.fresh('per_none', z3.BoolSort()), SV(cx.fresh('per'))),
        }

    def run_while(self, E, st, fr, cx):
        gh = self.gh
        self.entry_arrays = (gh.k, gh.AT, gh.AY, gh.AE)
        return super().run_while(E, st, fr, cx)

    def inv(self, E, cx, env, entry):
        gh = self.gh
        if env.get('prev_error_ratio') is None:
            env['prev_error_ratio'] = OptVal(z3.BoolVal(True), SV(z3.RealVal(1)))
        i = to_z3(env[AdaptiveOuter.index_name])
        out_t = to_z3(env['out_t'])
        k = gh.k
        k0, AT0, AY0, AE0 = self.entry_arrays
        j = z3.Int('j_')
        out = common_inv(gh, env, i)
        out += [
            ('prev<out_t', z3.Implies(k >= 1, gh.AT[k - 1] < out_t)),
            ('extends-entry-prefix', z3.And(k >= k0, z3.ForAll([j], z3.Implies(
                z3.And(0 <= j, j <= k0), z3.And(gh.AT[j] == AT0[j], gh.AY[j] == AY0[j])), patterns=[gh.AT[j]]))),
            ('first-needs-step', z3.Implies(i == 0, z3.Or(k >= 1, gh.AT[k] < out_t))),
        ]
        return out

    def measure(self, E, cx, env, entry):
        return None

    # trial-level obligations of C14, generated after each execution of the loop body -------------
    def ghost_step(self, E, cx, env, entry):
        gh = self.gh
        body_entry = self.body_entry
        t_before = to_z3(body_entry['curr_t'])
        s_before = to_z3(body_entry['step_size'])
        t_after = to_z3(env['curr_t'])
        s_after = to_z3(env['step_size'])
        err = to_z3(env['error_estimate'])
        next_t = to_z3(env['next_t'])
        lab = 'trial'
        q = cx.state.get('bm_queries', [])
        cx.oblige(f'{lab}.three-step-calls', z3.BoolVal(len(q) == 3), 'post')
        if len(q) == 3:
            m = z3.RealVal('1/2') * (t_before + next_t)
            # the full step and the two half steps, in any order of evaluation (the order is not part of the property)
            import itertools as _it
            want = [(t_before, next_t), (t_before, m), (m, next_t)]
            cx.oblige(f'{lab}.queries=(t,t1),(t,m),(m,t1)', z3.Or(*[z3.And(*[z3.And(q[i][0] == want[p_[i]][0], q[i][1] == want[p_[i]][1]) for i in range(3)])
                                                                   for p_ in _it.permutations(range(3))]), 'post')
        cx.oblige(f'{lab}.length>=dt_min-or-clipped', z3.Or(next_t - t_before >= gh.dt_min, next_t == gh.tsN()), 'post')
        cx.oblige(f'{lab}.strictly-advances', next_t > t_before, 'post')
        cx.oblige(f'{lab}.inside', z3.And(next_t <= gh.tsN(), t_before >= gh.ts0()), 'post')
        # the error estimate compares the full step with the two half steps from the same state, in the solver's own tolerances
        y_full = STEP_Y(t_before, next_t, body_entry['curr_y'].e, body_entry['curr_extra'].e)
        y_half, _e_half = two_half(t_before, next_t, body_entry['curr_y'].e, body_entry['curr_extra'].e)
        cx.oblige(f'{lab}.error-estimate=compute_error(full-step,two-half-steps,self.rtol,self.atol)',
                  err == ERR(y_full, y_half, gh.rtol, gh.atol), 'post')
        accepted = z3.Or(err <= 1, s_after <= gh.dt_min)
        same_state = z3.And(t_after == t_before, env['curr_y'].e == body_entry['curr_y'].e,
                            env['curr_extra'].e == body_entry['curr_extra'].e)
        y2, e2 = two_half(t_before, next_t, body_entry['curr_y'].e, body_entry['curr_extra'].e)
        moved = z3.And(t_after == next_t, env['curr_y'].e == y2, env['curr_extra'].e == e2,
                       to_z3(env['prev_t']) == t_before, env['prev_y'].e == body_entry['curr_y'].e)
        cx.oblige(f'{lab}.accept-iff(err<=1 or step<=dt_min)', z3.And(z3.Implies(accepted, moved), z3.Implies(z3.Not(accepted), same_state)), 'post')
        cx.oblige(f'{lab}.rejected-retries-smaller', z3.Implies(z3.Not(accepted), z3.And(s_after < s_before, s_after >= gh.dt_min)), 'post')
        cx.oblige(f'{lab}.new-step>=dt_min', s_after >= gh.dt_min, 'post')
        # ghost update: an accepted step extends the accepted trajectory
        k = gh.k
        is_acc = t_after != t_before
        nAT, nAY, nAE, nk = cx.fresh('AT', RA), cx.fresh('AY', z3.ArraySort(Z, TS)), cx.fresh('AE', z3.ArraySort(Z, XS)), cx.fresh('k', Z)
        cx.assume(z3.And(nAT == z3.If(is_acc, z3.Store(gh.AT, k + 1, t_after), gh.AT),
                         nAY == z3.If(is_acc, z3.Store(gh.AY, k + 1, env['curr_y'].e), gh.AY),
                         nAE == z3.If(is_acc, z3.Store(gh.AE, k + 1, env['curr_extra'].e), gh.AE),
                         nk == z3.If(is_acc, k + 1, k)))
        gh.AT, gh.AY, gh.AE, gh.k = nAT, nAY, nAE, nk

    def _assume_cond(self, E, cx, c, val):
        super()._assume_cond(E, cx, c, val)
        if val:
            # remember the state at the start of the body for the trial obligations
            self.body_entry = dict(self._fr.locals)
            cx.state['bm_queries'] = []

    def run_while(self, E, st, fr, cx):  # noqa: F811
        self._fr = fr
        gh = self.gh
        self.entry_arrays = (gh.k, gh.AT, gh.AY, gh.AE)
        return LoopSpec.run_while(self, E, st, fr, cx)


class IntegrateAdaptive(Contract):
    qualname = 'torchsde._core.base_solver.BaseSDESolver.integrate'

    def harness(self, E, cx):
        gh = AGhost(cx)
        cx.state['ghost'] = gh
        E.loops[(self.qualname, 0)] = AdaptiveOuter(gh)
        E.loops[(self.qualname, 1)] = AdaptiveInner(gh)
        cls = E.module('torchsde._core.base_solver').globals['BaseSDESolver']
        self_ = I.ObjVal(cls, label='solver')
        gh.rtol, gh.atol = cx.fresh('rtol'), cx.fresh('atol')
        self_.fields.update({'dt': SV(gh.dt), 'adaptive': True, 'rtol': SV(gh.rtol), 'atol': SV(gh.atol),
                             'dt_min': SV(gh.dt_min), 'options': {}, 'sde': None, 'bm': None})
        self.frozen = dict(self_.fields)
        ts = SymSeq(gh.n, TSF, 0, SV)
        return {'self': self_, 'y0': Opaque(gh.y0), 'ts': ts, 'extra0': Opaque(gh.e0), '$gh': gh}

    def requires(self, E, cx, a):
        gh = a['$gh']
        return [('ts', gh.ts_axioms()), ('dt>0', gh.dt > 0), ('dt_min>0', gh.dt_min > 0), ('ghost-init', gh.init)]

    def ensures(self, E, cx, a, r):
        gh = a['$gh']
        if not (isinstance(r, tuple) and len(r) == 2 and isinstance(r[0], Stacked)):
            return [('returns (stack(ys), extra)', z3.BoolVal(False))]
        ys, extra = r
        k = gh.k
        AT, AY = gh.AT, gh.AY
        kap = gh.kap
        j = z3.Int('j_')
        return [
            ('len(ys)=len(ts)', ys.n == gh.n),
            ('ys[0]=y0', z3.Select(ys.arr, 0) == gh.y0),
            ('accepted-steps-tile', z3.ForAll([j], z3.Implies(z3.And(0 <= j, j < k), gh.acc(j)), patterns=[AT[j + 1]])),
            ('starts-at-ts[0]', AT[0] == gh.ts0()),
            ('ends-at-ts[-1]', z3.Implies(gh.n >= 2, AT[k] == gh.tsN())),
            ('outputs-from-two-half-step-states', z3.ForAll([j], z3.Implies(
                z3.And(1 <= j, j < gh.n),
                z3.And(1 <= kap[j], kap[j] <= k, AT[kap[j] - 1] < TSF(j), TSF(j) <= AT[kap[j]],
                       z3.Select(ys.arr, j) == INTERP(AT[kap[j] - 1], AY[kap[j] - 1], AT[kap[j]], AY[kap[j]], TSF(j)))),
                patterns=[z3.Select(ys.arr, j)])),
            ('extra=AE(k)', extra.e == gh.AE[k]),
            ('frame.self-unchanged', z3.BoolVal(all(a['self'].fields.get(n) is v for n, v in self.frozen.items())
                                                and set(a['self'].fields) == set(self.frozen))),
        ]
