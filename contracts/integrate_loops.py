"""Loop invariants and the contract of BaseSDESolver.integrate.

Ghost vocabulary (fixed step):  G : Int -> Real  the step grid,  SY, SE : Int -> state / extra,
  G(0) = ts[0],  G(j+1) = min(G(j) + dt, ts[-1]),
  SY(j+1), SE(j+1) = step(G(j), G(j+1), SY(j), SE(j)),  SY(0) = y0, SE(0) = extra0.
These are *definitions* (recursion over the naturals); the invariants instantiate them at the
indices they need.  KAP : Int -> Int is a ghost array chosen by the proof: KAP[j] is the step
index whose interval contains output time ts[j].
"""
import z3

from pyvc.contract import Contract, LoopSpec
from pyvc.values import SV, SB, Opaque, OptVal, Unsupported, to_z3
from pyvc import interp as I
from contracts.integrate import (TS, XS, R, Z, STEP_Y, STEP_E, INTERP, SymSeq, SymList, Stacked, UT, FADD)

G = z3.Function('G', Z, R)
SY = z3.Function('SY', Z, TS)
SE = z3.Function('SE', Z, XS)
TSF = z3.Function('ts', Z, R)


class Ghost:
    """Per-path ghost state of an integrate run."""

    def __init__(self, cx, uninterpreted_time=False):
        self.ut = uninterpreted_time
        self.n = cx.fresh('n', Z)          # len(ts)
        self.dt = cx.fresh('dt')
        self.y0 = cx.fresh('y0', TS)
        self.e0 = cx.fresh('extra0', XS)
        self.k = z3.IntVal(0)              # steps taken
        self.kap = z3.K(Z, z3.IntVal(0))

    def ts0(self):
        return TSF(z3.IntVal(0))

    def tsN(self):
        return TSF(self.n - 1)

    def plus_dt(self, t):
        return FADD(t, self.dt) if self.ut else t + self.dt

    def grid_def(self, j):
        """Instance of the recursive definitions at index j (j >= 0)."""
        nxt = self.plus_dt(G(j))
        g1 = z3.If(self.tsN() < nxt, self.tsN(), nxt)   # Python min(a, b): b if b < a else a
        return z3.Implies(j >= 0, z3.And(
            G(j + 1) == g1,
            SY(j + 1) == STEP_Y(G(j), G(j + 1), SY(j), SE(j)),
            SE(j + 1) == STEP_E(G(j), G(j + 1), SY(j), SE(j)),
            # consequences of the definition by induction (each is a separate lemma obligation in C12):
            G(j) <= self.tsN(), G(j + 1) <= self.tsN(), G(j) <= G(j + 1),
            z3.Implies(G(j) < self.tsN(), G(j) < G(j + 1))))

    def base(self):
        return z3.And(G(0) == self.ts0(), SY(0) == self.y0, SE(0) == self.e0)

    def ts_axioms(self, *idx):
        out = [self.n >= 1]
        i, j = z3.Ints('i_ j_')
        out.append(z3.ForAll([i, j], z3.Implies(z3.And(0 <= i, i < j, j < self.n), TSF(i) < TSF(j)),
                             patterns=[z3.MultiPattern(TSF(i), TSF(j))]))
        return z3.And(*out)

    def time_axioms(self):
        if not self.ut:
            return z3.BoolVal(True)
        a = z3.Real('a_')
        # T1-flavoured ordering assumption for uninterpreted (floating) addition of a positive step
        return z3.ForAll([a], FADD(a, self.dt) > a, patterns=[FADD(a, self.dt)])


def wrap_time(gh, e):
    return UT(e) if gh.ut else SV(e)


class FixedOuter(LoopSpec):
    """for out_t in ts[1:]  (ordinal 0)"""
    modifies = ('next_t', 'prev_t', 'prev_y', 'curr_t', 'curr_y', 'curr_extra', 'ys',
                'next_y_full', '_', 'midpoint_t', 'midpoint_y', 'midpoint_extra', 'next_y', 'next_extra',
                'error_estimate', 'step_size', 'prev_error_ratio')

    def __init__(self, gh):
        self.gh = gh

    def seq_len(self, E, cx, it):
        return SV(it.length())

    def seq_get(self, E, cx, it, i):
        return it.get(i)

    def havoc(self, E, cx, env, entry):
        gh = self.gh
        gh.k = cx.fresh('k', Z)
        gh.kap = cx.fresh('kap', z3.ArraySort(Z, Z))
        ys = SymList(cx.fresh('ys_len', Z), cx.fresh('ys', z3.ArraySort(Z, TS)))
        return {
            'prev_t': wrap_time(gh, cx.fresh('prev_t')), 'prev_y': Opaque(cx.fresh('prev_y', TS)),
            'curr_t': wrap_time(gh, cx.fresh('curr_t')), 'curr_y': Opaque(cx.fresh('curr_y', TS)),
            'curr_extra': Opaque(cx.fresh('curr_extra', XS)), 'ys': ys,
            'next_t': wrap_time(gh, cx.fresh('next_t')),
        }

    def after_havoc(self, E, cx, env, entry):
        gh = self.gh
        for j in (gh.k, gh.k - 1):
            cx.assume(gh.grid_def(j))

    def prepare(self, env, cx):
        ys = env['ys']
        if isinstance(ys, list):
            arr = z3.K(Z, self.gh.y0)
            for i, x in enumerate(ys):
                arr = z3.Store(arr, i, x.e)
            env['ys'] = SymList(z3.IntVal(len(ys)), arr)

    def inv(self, E, cx, env, entry):
        self.prepare(env, cx)
        gh = self.gh
        i = to_z3(env[self.index_name])          # completed outer iterations; outputs 1..i are stored
        k = gh.k
        ys = env['ys']
        j = z3.Int('j_')
        kap = gh.kap
        out = [
            ('k>=0', k >= 0),
            ('curr=S(k)', z3.And(to_z3(env['curr_t']) == G(k), env['curr_y'].e == SY(k), env['curr_extra'].e == SE(k))),
            ('prev.k=0', z3.Implies(k == 0, z3.And(to_z3(env['prev_t']) == gh.ts0(), env['prev_y'].e == gh.y0))),
            ('prev.k>0', z3.Implies(k >= 1, z3.And(to_z3(env['prev_t']) == G(k - 1), env['prev_y'].e == SY(k - 1)))),
            ('len(ys)', ys.n == i + 1),
            ('ys[0]=y0', z3.Select(ys.arr, 0) == gh.y0),
            ('last-output-in-current-step', z3.Implies(i >= 1, z3.And(k >= 1, G(k - 1) < TSF(i), TSF(i) <= G(k)))),
            ('k=0-before-first-output', z3.Implies(i == 0, k == 0)),
            ('outputs', z3.ForAll([j], z3.Implies(
                z3.And(1 <= j, j <= i),
                z3.And(1 <= kap[j], kap[j] <= k, G(kap[j] - 1) < TSF(j), TSF(j) <= G(kap[j]),
                       z3.Select(ys.arr, j) == INTERP(G(kap[j] - 1), SY(kap[j] - 1), G(kap[j]), SY(kap[j]), TSF(j)))),
                patterns=[z3.Select(ys.arr, j)])),
        ]
        return out


class FixedInner(LoopSpec):
    """while curr_t < out_t  (ordinal 1)"""
    modifies = FixedOuter.modifies

    def __init__(self, gh, outer):
        self.gh = gh
        self.outer = outer

    def havoc(self, E, cx, env, entry):
        gh = self.gh
        gh.k = cx.fresh('k', Z)
        return {
            'prev_t': wrap_time(gh, cx.fresh('prev_t')), 'prev_y': Opaque(cx.fresh('prev_y', TS)),
            'curr_t': wrap_time(gh, cx.fresh('curr_t')), 'curr_y': Opaque(cx.fresh('curr_y', TS)),
            'curr_extra': Opaque(cx.fresh('curr_extra', XS)),
            'next_t': wrap_time(gh, cx.fresh('next_t')),
        }

    def after_havoc(self, E, cx, env, entry):
        gh = self.gh
        for j in (gh.k, gh.k - 1):
            cx.assume(gh.grid_def(j))

    def inv(self, E, cx, env, entry):
        gh = self.gh
        k = gh.k
        i = to_z3(env[FixedOuter.index_name])
        out_t = to_z3(env['out_t'])
        ys = env['ys']
        return [
            ('k>=0', k >= 0),
            ('curr=S(k)', z3.And(to_z3(env['curr_t']) == G(k), env['curr_y'].e == SY(k), env['curr_extra'].e == SE(k))),
            ('prev.k=0', z3.Implies(k == 0, z3.And(to_z3(env['prev_t']) == gh.ts0(), env['prev_y'].e == gh.y0))),
            ('prev.k>0', z3.Implies(k >= 1, z3.And(to_z3(env['prev_t']) == G(k - 1), env['prev_y'].e == SY(k - 1)))),
            ('prev<out_t', z3.Implies(k >= 1, G(k - 1) < out_t)),
            ('k>=entry', k >= self.k_entry),
            ('first-needs-step', z3.Implies(i == 0, z3.Or(k >= 1, G(k) < out_t))),
        ]

    def run_while(self, E, st, fr, cx):
        self.k_entry = self.gh.k
        return super().run_while(E, st, fr, cx)

    def measure(self, E, cx, env, entry):
        return None


class IntegrateFixed(Contract):
    """integrate() with adaptive=False."""
    qualname = 'torchsde._core.base_solver.BaseSDESolver.integrate'

    def __init__(self, uninterpreted_time=False):
        self.ut = uninterpreted_time

    def harness(self, E, cx):
        gh = Ghost(cx, self.ut)
        cx.state['ghost'] = gh
        E.loops[(self.qualname, 0)] = FixedOuter(gh)
        E.loops[(self.qualname, 1)] = FixedInner(gh, E.loops[(self.qualname, 0)])
        cls = E.module('torchsde._core.base_solver').globals['BaseSDESolver']
        self_ = I.ObjVal(cls, label='solver')
        self_.fields.update({'dt': wrap_time(gh, gh.dt), 'adaptive': False, 'rtol': cx.real('rtol'), 'atol': cx.real('atol'),
                             'dt_min': cx.real('dt_min'), 'options': {}, 'sde': None, 'bm': None})
        self.frozen = dict(self_.fields)
        ts = SymSeq(gh.n, TSF, 0, (lambda e: wrap_time(gh, e)))
        return {'self': self_, 'y0': Opaque(gh.y0), 'ts': ts, 'extra0': Opaque(gh.e0), '$gh': gh}

    def requires(self, E, cx, a):
        gh = a['$gh']
        return [('ts', gh.ts_axioms()), ('dt>0', gh.dt > 0), ('ghost-base', gh.base()), ('time', gh.time_axioms()),
                ('grid0', gh.grid_def(z3.IntVal(0)))]

    def ensures(self, E, cx, a, r):
        gh = a['$gh']
        if not (isinstance(r, tuple) and len(r) == 2 and isinstance(r[0], Stacked)):
            return [('returns (stack(ys), extra)', z3.BoolVal(False))]
        ys, extra = r
        k = gh.k
        j = z3.Int('j_')
        kap = gh.kap
        out = [
            ('len(ys)=len(ts)', ys.n == gh.n),
            ('ys[0]=y0', z3.Select(ys.arr, 0) == gh.y0),
            ('outputs', z3.ForAll([j], z3.Implies(
                z3.And(1 <= j, j < gh.n),
                z3.And(1 <= kap[j], kap[j] <= k, G(kap[j] - 1) < TSF(j), TSF(j) <= G(kap[j]),
                       z3.Select(ys.arr, j) == INTERP(G(kap[j] - 1), SY(kap[j] - 1), G(kap[j]), SY(kap[j]), TSF(j)))),
                patterns=[z3.Select(ys.arr, j)])),
            ('extra=SE(k)', extra.e == SE(k)),
            ('ends-at-ts[-1]', z3.Implies(gh.n >= 2, G(k) == gh.tsN())),
            ('no-steps-for-single-time', z3.Implies(gh.n == 1, k == 0)),
            ('frame.self-unchanged', z3.BoolVal(all(a['self'].fields.get(n) is v for n, v in self.frozen.items())
                                                and set(a['self'].fields) == set(self.frozen))),
        ]
        return out


def _outer_ghost_step(self, E, cx, env, entry):
    gh = self.gh
    i = to_z3(env[self.index_name])
    gh.kap = z3.Store(gh.kap, i, gh.k)


FixedOuter.ghost_step = _outer_ghost_step


# ------------------------------------------------------------------------------------------
# C13: relational non-interference of the stepping loop (hidden-state detection)
# ------------------------------------------------------------------------------------------
class RelOuter(LoopSpec):
    """Outer loop of the relational check: every local is arbitrary (no invariant needed)."""
    modifies = FixedOuter.modifies

    def __init__(self, gh):
        self.gh = gh

    def seq_len(self, E, cx, it):
        return SV(it.length())

    def seq_get(self, E, cx, it, i):
        return it.get(i)

    def havoc(self, E, cx, env, entry):
        gh = self.gh
        return {
            'prev_t': wrap_time(gh, cx.fresh('prev_t')), 'prev_y': Opaque(cx.fresh('prev_y', TS)),
            'curr_t': wrap_time(gh, cx.fresh('curr_t')), 'curr_y': Opaque(cx.fresh('curr_y', TS)),
            'curr_extra': Opaque(cx.fresh('curr_extra', XS)),
            'ys': SymList(cx.fresh('ys_len', Z), cx.fresh('ys', z3.ArraySort(Z, TS))),
        }

    def inv(self, E, cx, env, entry):
        if isinstance(env.get('ys'), list):
            ys = env['ys']
            arr = z3.K(Z, self.gh.y0)
            for i, x in enumerate(ys):
                arr = z3.Store(arr, i, x.e)
            env['ys'] = SymList(z3.IntVal(len(ys)), arr)
        return []


class RelInner(LoopSpec):
    """while curr_t < out_t: two executions of the body from states that agree on the carried
    solver state (curr_t, curr_y, curr_extra), on `self` and on ts[-1], and are otherwise unrelated
    (prev_*, out_t, ts[0], ys and any local the specification does not know), must agree on the
    carried state afterwards and issue the same step calls."""
    modifies = FixedOuter.modifies
    CARRIED = ('curr_t', 'curr_y', 'curr_extra')

    def __init__(self, gh, ts_b):
        self.gh = gh
        self.ts_b = ts_b

    def run_while(self, E, st, fr, cx):
        gh = self.gh
        unknown = self._check_modifies(st)
        unknown = [n for n in unknown if n not in self._iteration_temporaries(st, fr, unknown)]
        lab = self._label(fr, st)
        carried = {
            'curr_t': cx.fresh('curr_t'), 'curr_y': cx.fresh('curr_y', TS), 'curr_extra': cx.fresh('curr_extra', XS)}
        results = []
        base_locals = dict(fr.locals)
        for copy in ('A', 'B'):
            fr.locals.clear()
            fr.locals.update(base_locals)
            fr.locals['curr_t'] = wrap_time(gh, carried['curr_t'])
            fr.locals['curr_y'] = Opaque(carried['curr_y'])
            fr.locals['curr_extra'] = Opaque(carried['curr_extra'])
            fr.locals['prev_t'] = wrap_time(gh, cx.fresh('prev_t' + copy))
            fr.locals['prev_y'] = Opaque(cx.fresh('prev_y' + copy, TS))
            fr.locals['out_t'] = wrap_time(gh, cx.fresh('out_t' + copy))
            fr.locals['next_t'] = wrap_time(gh, cx.fresh('next_t' + copy))
            if copy == 'B':
                fr.locals['ts'] = self.ts_b
            self._havoc_unknown(E, cx, fr, unknown)
            cx.state.pop('weak_invariant', None)   # unknown locals are handled soundly here (independent per copy)
            cx.state['bm_queries'] = []
            c = E.eval(st.test, fr, cx)
            self._assume_cond(E, cx, c, True)
            try:
                E.exec_block(st.body, fr, cx)
            except (_ContinueSig, _BreakSig):
                pass
            results.append(({n: fr.locals[n] for n in self.CARRIED}, list(cx.state['bm_queries'])))
        (ca, qa), (cb, qb) = results
        cx.oblige(f'rel.{lab}.same-next-time', to_z3(ca['curr_t']) == to_z3(cb['curr_t']), 'relational', st.lineno)
        cx.oblige(f'rel.{lab}.same-next-state', z3.And(ca['curr_y'].e == cb['curr_y'].e, ca['curr_extra'].e == cb['curr_extra'].e),
                  'relational', st.lineno)
        same_q = len(qa) == len(qb)
        f = z3.BoolVal(same_q)
        if same_q:
            f = z3.And(*[z3.And(x[0] == y[0], x[1] == y[1]) for x, y in zip(qa, qb)]) if qa else z3.BoolVal(True)
        cx.oblige(f'rel.{lab}.same-step-calls', f, 'relational', st.lineno)
        from pyvc.interp import PathEnd
        raise PathEnd('relational step complete')


from pyvc.interp import _Continue as _ContinueSig, _Break as _BreakSig  # noqa: E402

TSF_B = z3.Function('ts_B', Z, R)


class IntegrateRelational(Contract):
    """Harness for the relational loop-body check (no postcondition of its own)."""
    qualname = 'torchsde._core.base_solver.BaseSDESolver.integrate'

    def harness(self, E, cx):
        gh = Ghost(cx, True)
        gh.count_steps = False
        cx.state['ghost'] = gh
        cx.state['skip_step_pre'] = True
        nb = cx.fresh('nB', Z)
        ts_b = SymSeq(nb, TSF_B, 0, (lambda e: wrap_time(gh, e)))
        E.loops[(self.qualname, 0)] = RelOuter(gh)
        E.loops[(self.qualname, 1)] = RelInner(gh, ts_b)
        cls = E.module('torchsde._core.base_solver').globals['BaseSDESolver']
        self_ = I.ObjVal(cls, label='solver')
        self_.fields.update({'dt': wrap_time(gh, gh.dt), 'adaptive': False, 'rtol': cx.real('rtol'), 'atol': cx.real('atol'),
                             'dt_min': cx.real('dt_min'), 'options': {}, 'sde': None, 'bm': None})
        ts = SymSeq(gh.n, TSF, 0, (lambda e: wrap_time(gh, e)))
        cx.assume(z3.And(nb >= 2, gh.n >= 2, TSF_B(nb - 1) == TSF(gh.n - 1)))
        return {'self': self_, 'y0': Opaque(gh.y0), 'ts': ts, 'extra0': Opaque(gh.e0), '$gh': gh}

    def requires(self, E, cx, a):
        gh = a['$gh']
        return [('dt>0', gh.dt > 0)]
