"""_LRUDict.__setitem__ against the abstract map contract "may forget, never alters; at most max_size entries".

State model (Q domain): the dict part is (present: Key -> Bool, val: Key -> Value, cnt), the list `_keys` is a z3
sequence of keys.  Representation invariant: keys are duplicate-free, present[k] <=> k in keys, cnt = len(keys)."""
import z3

from pyvc import interp as I
from pyvc.contract import Contract
from pyvc.values import SV, SB, Unsupported, to_z3

Z = z3.IntSort()
KS = z3.SeqSort(Z)
QN = 'torchsde._brownian.brownian_interval._LRUDict.__setitem__'


class KeyList:
    """Python list of keys: (arr, n) with the list operations specified by their effect on indices (T6: CPython list
    semantics).  `pos` is a ghost inverse index maintained for the representation invariant."""

    def __init__(self, cx, owner):
        self.cx = cx
        self.owner = owner
        self.arr = cx.fresh('keys', z3.ArraySort(Z, Z))
        self.n = cx.fresh('keys_len', Z)
        self.pos = cx.fresh('pos', z3.ArraySort(Z, Z))

    def _shift_from(self, idx):
        cx = self.cx
        arr2 = cx.fresh('keys', z3.ArraySort(Z, Z))
        pos2 = cx.fresh('pos', z3.ArraySort(Z, Z))
        i, k = z3.Ints('i_ k_')
        cx.assume(z3.ForAll([i], z3.And(z3.Implies(z3.And(0 <= i, i < idx), arr2[i] == self.arr[i]),
                                        z3.Implies(z3.And(idx <= i, i < self.n - 1), arr2[i] == self.arr[i + 1])),
                            patterns=[arr2[i]]))
        cx.assume(z3.ForAll([k], pos2[k] == z3.If(self.pos[k] < idx, self.pos[k], self.pos[k] - 1), patterns=[pos2[k]]))
        self.arr, self.pos, self.n = arr2, pos2, self.n - 1

    def __pyvc_getattr__(self, engine, name, cx, lineno):
        if name == 'remove':
            def remove(k):
                k = to_z3(k)
                i = z3.Int('i_')
                idx = self.pos[k]
                cx.oblige(f'no-raise.ValueError(list.remove)@L{lineno}', z3.And(0 <= idx, idx < self.n, self.arr[idx] == k), 'no-raise', lineno)
                cx.oblige(f'ghost.remove-index-is-the-first-occurrence@L{lineno}',
                          z3.ForAll([i], z3.Implies(z3.And(0 <= i, i < self.n, self.arr[i] == k), i == idx), patterns=[self.arr[i]]),
                          'ghost', lineno)
                self._shift_from(idx)
            return I.ExternFunc('list.remove', remove)
        if name == 'pop':
            def pop(i=-1):
                cx.oblige(f'no-raise.IndexError(list.pop)@L{lineno}', self.n > 0, 'no-raise', lineno)
                if i == -1:
                    last = self.arr[self.n - 1]
                    self.n = self.n - 1
                    return SV(last)
                if i != 0:
                    raise Unsupported('KeyList.pop(i) for i not in (0, -1)')
                head = self.arr[0]
                self._shift_from(z3.IntVal(0))
                return SV(head)
            return I.ExternFunc('list.pop', pop)
        if name == 'append':
            def append(k):
                k = to_z3(k)
                self.arr = z3.Store(self.arr, self.n, k)
                self.pos = z3.Store(self.pos, k, self.n)
                self.n = self.n + 1
            return I.ExternFunc('list.append', append)
        raise Unsupported(f'KeyList.{name}')


class LRUObj:
    """`self` of _LRUDict: dict state + fields."""

    def __init__(self, cx):
        self.present = cx.fresh('present', z3.ArraySort(Z, z3.BoolSort()))
        self.val = cx.fresh('val', z3.ArraySort(Z, Z))
        self.cnt = cx.fresh('cnt', Z)
        self.max_size = cx.fresh('max_size', Z)
        self.keys = KeyList(cx, self)
        self.cx = cx

    def rep(self):
        i, k = z3.Ints('i_ k_')
        a, n, pos = self.keys.arr, self.keys.n, self.keys.pos
        return [('cnt=len(keys)', z3.And(self.cnt == n, n >= 0)),
                ('present=>indexed', z3.ForAll([k], z3.Implies(self.present[k], z3.And(0 <= pos[k], pos[k] < n, a[pos[k]] == k)),
                                               patterns=[self.present[k]])),
                ('listed=>present(duplicate-free)', z3.ForAll([i], z3.Implies(z3.And(0 <= i, i < n), z3.And(self.present[a[i]], pos[a[i]] == i)),
                                                              patterns=[a[i]]))]

    def __pyvc_getattr__(self, engine, name, cx, lineno):
        if name == '_keys':
            return self.keys
        if name == '_max_size':
            return SV(self.max_size)
        raise Unsupported(f'_LRUDict.{name}')

    def __pyvc_contains__(self, engine, item, cx, lineno):
        return SB(z3.Select(self.present, to_z3(item)))

    def __pyvc_len__(self):
        return SV(self.cnt)

    def __pyvc_delitem__(self, engine, key, cx, lineno):
        k = to_z3(key)
        cx.oblige(f'no-raise.KeyError(del)@L{lineno}', z3.Select(self.present, k), 'no-raise', lineno)
        self.present = z3.Store(self.present, k, z3.BoolVal(False))
        self.cnt = self.cnt - 1
        cx.state.setdefault('evicted', []).append(k)

    def __pyvc_super__(self, engine, cls, name, cx, lineno):
        if name == '__setitem__':
            def setitem(key, value):
                k = to_z3(key)
                self.cnt = z3.If(z3.Select(self.present, k), self.cnt, self.cnt + 1)
                self.present = z3.Store(self.present, k, z3.BoolVal(True))
                self.val = z3.Store(self.val, k, to_z3(value))
            return I.ExternFunc('dict.__setitem__', setitem)
        raise Unsupported(f'super().{name}')


class LRUSetItem(Contract):
    qualname = QN

    def harness(self, E, cx):
        o = LRUObj(cx)
        return {'self': o, 'key': cx.int('key'), 'value': cx.int('value'),
                '$old': (o.present, o.val, o.cnt, o.keys.arr)}

    def requires(self, E, cx, a):
        o = a['self']
        return o.rep() + [('max_size>=1', o.max_size >= 1), ('cnt<=max_size', o.cnt <= o.max_size)]

    def ensures(self, E, cx, a, r):
        o = a['self']
        p0, v0, c0, s0 = a['$old']
        key, value = a['key'].e, a['value'].e
        k = z3.Int('k_')
        ev = cx.state.get('evicted', [])
        piv_k = [key] + list(ev)
        out = []
        for n, f in o.rep():
            if n.startswith('present'):
                out.append((n, f, piv_k))
            elif n.startswith('listed'):
                out.append((n, f, [o.keys.n - 1]))
            else:
                out.append((n, f))
        out += [
            ('stored', z3.And(o.present[key], o.val[key] == value)),
            ('bounded', o.cnt <= o.max_size),
            ('may-forget-never-alters', z3.ForAll([k], z3.Implies(z3.And(k != key, o.present[k]), z3.And(p0[k], o.val[k] == v0[k])))),
            ('evicts-only-the-oldest', z3.BoolVal(len(ev) <= 1) if not ev else z3.And(z3.BoolVal(len(ev) == 1), ev[0] == z3.Select(s0, 0))),
            ('forgets-at-most-the-evicted', z3.ForAll([k], z3.Implies(z3.And(p0[k], z3.Not(o.present[k])),
                                                                     z3.BoolVal(False) if not ev else k == ev[0]))),
            ('key-is-most-recent', z3.Select(o.keys.arr, o.keys.n - 1) == key),
        ]
        return out
