"""Contracts for the Brownian wrappers of torchsde._brownian.derived (ReverseBrownian, BrownianPath, BrownianTree)
on a generic element.  The wrapped object obeys the postcondition of BrownianInterval.__call__ (proved in C03):
W(a,b) = Wc(b)-Wc(a), U(a,b) = V(b)-V(a)-(b-a)Wc(a), A opaque; the tensors it returns may alias its internal storage
(`borrowed`), so a wrapper must not update them in place."""
import z3

from pyvc import interp as I
from pyvc.contract import Contract
from pyvc.values import SV, SB, Unsupported, to_z3

R = z3.RealSort()
WC = z3.Function('Wc', R, R)
VV = z3.Function('V', R, R)
AA = z3.Function('A', R, R, R)     # generic element of the Levy-area approximation returned for (a, b)


class Borrowed(SV):
    """A tensor element owned by the wrapped Brownian object (the real object may hand out its stored tensors)."""
    __slots__ = ()
    __pyvc_borrowed__ = True


class BaseBM:
    """The wrapped Brownian object as a black box satisfying the contract of __call__."""

    def __init__(self, have_U=True, have_A=True):
        self.calls = []
        self.have_U, self.have_A = have_U, have_A

    def __pyvc_call__(self, engine, args, kwargs, cx, lineno):
        a = args[0]
        b = args[1] if len(args) > 1 else kwargs.get('tb')
        ru = kwargs.get('return_U', False)
        ra = kwargs.get('return_A', False)
        self.calls.append((a, b, ru, ra))
        if b is None:
            ta, tb = z3.RealVal(0), to_z3(a)       # point evaluation: interval from t0 (= 0 here) to a
        else:
            ta, tb = to_z3(a), to_z3(b)
        W = Borrowed(WC(tb) - WC(ta))
        U = Borrowed(VV(tb) - VV(ta) - (tb - ta) * WC(ta)) if self.have_U else None
        A = Borrowed(AA(ta, tb)) if self.have_A else None
        for flag in (ru, ra):
            if isinstance(flag, SB):
                raise Unsupported('symbolic return flags')
        if ru:
            return (W, U, A) if ra else (W, U)
        return (W, A) if ra else W

    def __pyvc_getattr__(self, engine, name, cx, lineno):
        if name in ('dtype', 'device', 'shape', 'levy_area_approximation'):
            return name
        raise I.PyExc('AttributeError', name, lineno)


CAST = z3.Function('cast_to_dtype', z3.RealSort(), z3.RealSort())


class TimeTensor(SV):
    """A 0-d time tensor held in a higher precision than the Brownian motion (e.g. float64 `ts` with a float32 motion): arithmetic is
    that of the value; converting it to another dtype / device (`.to(...)`) rounds it -- an uninterpreted function of the value."""
    __slots__ = ()
    is_time_tensor = True

    def __pyvc_getattr__(self, engine, name, cx, lineno):
        if name == 'to':
            def to(*a, **k):
                if k.get('dtype', 'float64') != 'float64' or (a and a[0] != 'float64'):
                    return TimeTensor(CAST(self.e))
                return self
            return I.ExternFunc('Tensor.to', to)
        if name == 'dtype':
            return 'float64'
        if name == 'device':
            return 'device'
        raise Unsupported(f'TimeTensor.{name}')


def install_inplace_guard(E):
    """In-place updates (`x += ...`) of a borrowed tensor violate the frame of the wrapper (they would write into the
    wrapped object's stored increments)."""
    orig = E.st_AugAssign

    def st_AugAssign(st, fr, cx):
        import ast
        load = I._as_load(st.target)
        ast.copy_location(load, st.target)
        cur = E.eval(load, fr, cx)
        items = cur if isinstance(cur, tuple) else (cur,)
        if any(getattr(x, '__pyvc_borrowed__', False) for x in items):
            cx.oblige(f'frame.no-in-place-update-of-a-tensor-owned-by-the-wrapped-object@L{st.lineno}', z3.BoolVal(False), 'frame', st.lineno)
        return orig(st, fr, cx)
    E.st_AugAssign = st_AugAssign
