"""Contracts and loop invariants for BaseSDESolver.integrate (fixed-step and adaptive),
linear_interp and the adaptive step-size controller.

Value domains: times are reals (SV) -- or, for the bit-level clause of C13, reals whose
arithmetic is uninterpreted (UT: only congruence, "same operations on same operands");
tensors and solver extra state are opaque values of uninterpreted sorts; `step` is an
uninterpreted pair of functions (the loop contract is proved once, for every solver).
"""
import z3

from pyvc.contract import Contract, LoopSpec
from pyvc.values import SV, SB, Opaque, Unsupported, to_z3, b2z
from pyvc import interp as I

TS = z3.DeclareSort('Tensor')
XS = z3.DeclareSort('Extra')

R = z3.RealSort()
Z = z3.IntSort()

STEP_Y = z3.Function('STEP_Y', R, R, TS, XS, TS)
STEP_E = z3.Function('STEP_E', R, R, TS, XS, XS)
INTERP = z3.Function('INTERP', R, TS, R, TS, R, TS)
ERR = z3.Function('ERR', TS, TS, R, R, R)       # compute_error(y_full, y_two_halves, rtol, atol): mixed rtol/atol RMS norm (its body: ComputeErrorBody)


# ------------------------------------------------------------------------------------------
# symbolic sequences
# ------------------------------------------------------------------------------------------
class SymSeq:
    """Immutable symbolic sequence (ts): length n (z3 Int), element function f: Int -> value, view offset."""

    def __init__(self, n, fn, off=0, wrap=SV):
        self.n = n
        self.fn = fn
        self.off = off
        self.wrap = wrap

    def length(self):
        return self.n - self.off

    def get(self, i):
        i = to_z3(i) if not isinstance(i, int) else z3.IntVal(i)
        return self.wrap(self.fn(i + self.off))

    def __pyvc_getitem__(self, engine, key, cx, lineno):
        if isinstance(key, slice):
            if key.step is not None or key.stop is not None:
                raise Unsupported('SymSeq slice')
            lo = key.start or 0
            if not isinstance(lo, int) or lo < 0:
                raise Unsupported('SymSeq slice start')
            return SymSeq(self.n, self.fn, self.off + lo, self.wrap)
        if isinstance(key, int):
            if key >= 0:
                cx.oblige(f'no-raise.IndexError@L{lineno}', self.length() > key, 'no-raise', lineno)
                return self.get(key)
            cx.oblige(f'no-raise.IndexError@L{lineno}', self.length() >= -key, 'no-raise', lineno)
            return self.wrap(self.fn(self.n + key))
        if isinstance(key, SV):
            cx.oblige(f'no-raise.IndexError@L{lineno}', z3.And(key.e >= 0, key.e < self.length()), 'no-raise', lineno)
            return self.get(key)
        raise Unsupported(f'SymSeq index {key!r}')

    def __pyvc_len__(self):
        return SV(self.length())


class SymList:
    """Mutable symbolic list (ys): length (z3 Int) + z3 Array Int -> elem."""

    def __init__(self, n, arr):
        self.n = n
        self.arr = arr

    def m_append(self, v):
        self.arr = z3.Store(self.arr, self.n, v.e)
        self.n = self.n + 1

    def m_pop(self, cx, lineno):
        cx.oblige(f'no-raise.IndexError(pop from empty list)@L{lineno}', self.n > 0, 'no-raise', lineno)
        self.n = self.n - 1
        return self.elem(self.n)

    def __pyvc_getattr__(self, engine, name, cx, lineno):
        if name == 'append':
            return I.ExternFunc('SymList.append', self.m_append)
        if name == 'pop':
            return I.ExternFunc('SymList.pop', lambda: self.m_pop(cx, lineno))
        raise Unsupported(f'SymList.{name}')

    def __pyvc_len__(self):
        return SV(self.n)

    wrap = None   # element wrapper (e.g. SymRef for lists of tree nodes)

    def elem(self, i):
        v = z3.Select(self.arr, i)
        return self.wrap(v) if self.wrap else v

    def __pyvc_getitem__(self, engine, key, cx, lineno):
        if isinstance(key, slice):
            if key.step is not None or key.stop is not None or not isinstance(key.start or 0, int) or (key.start or 0) < 0:
                raise Unsupported('SymList slice')
            return SymListView(self, key.start or 0)
        if isinstance(key, int):
            if key >= 0:
                cx.oblige(f'no-raise.IndexError@L{lineno}', self.n > key, 'no-raise', lineno)
                return self.elem(z3.IntVal(key))
            cx.oblige(f'no-raise.IndexError@L{lineno}', self.n >= -key, 'no-raise', lineno)
            return self.elem(self.n + key)
        raise Unsupported(f'SymList index {key!r}')


class SymListView:
    """lst[off:] of a symbolic list (iteration with a loop invariant)."""

    def __init__(self, lst, off):
        self.lst = lst
        self.off = off

    def length(self):
        return z3.If(self.lst.n - self.off >= 0, self.lst.n - self.off, 0)

    def get(self, i):
        i = to_z3(i) if not isinstance(i, int) else z3.IntVal(i)
        return self.lst.elem(i + self.off)


class Stacked:
    """torch.stack(ys, dim=0) of a symbolic list."""

    def __init__(self, lst):
        self.n = lst.n
        self.arr = lst.arr


def stack_model(engine, cx, lineno, seq, dim=0):
    # the returned ys are indexed by output time along dimension 0 (shape (T, batch, d)): the Stacked abstraction is only that
    cx.oblige(f'post.outputs-stacked-along-dim-0@L{lineno}', z3.BoolVal(isinstance(dim, int) and dim == 0), 'post', lineno)
    if isinstance(seq, SymList):
        return Stacked(seq)
    if isinstance(seq, list) and all(isinstance(x, Opaque) for x in seq):
        arr = z3.K(Z, seq[0].e)
        for i, x in enumerate(seq):
            arr = z3.Store(arr, i, x.e)
        return Stacked(SymList(z3.IntVal(len(seq)), arr))
    raise Unsupported('torch.stack of a concrete list in the integrate job')


# ------------------------------------------------------------------------------------------
# uninterpreted time arithmetic (bit-level clause of C13)
# ------------------------------------------------------------------------------------------
FADD = z3.Function('fadd', R, R, R)
FSUB = z3.Function('fsub', R, R, R)
FMUL = z3.Function('fmul', R, R, R)
FDIV = z3.Function('fdiv', R, R, R)


class UT(SV):
    """Time value whose arithmetic is uninterpreted (floating point modelled by congruence only)."""
    __slots__ = ()

    def _bin(self, other, f, swap=False):
        raise Unsupported('UT arithmetic')

    def _u(self, o, fn, swap=False):
        if isinstance(o, (SV, int)) or hasattr(o, 'numerator'):
            a, b = self.e, z3.ToReal(to_z3(o)) if to_z3(o).sort() == Z else to_z3(o)
            if swap:
                a, b = b, a
            return UT(fn(a, b))
        return NotImplemented

    def __add__(self, o): return self._u(o, FADD)
    def __radd__(self, o): return self._u(o, FADD, True)
    def __sub__(self, o): return self._u(o, FSUB)
    def __rsub__(self, o): return self._u(o, FSUB, True)
    def __mul__(self, o): return self._u(o, FMUL)
    def __rmul__(self, o): return self._u(o, FMUL, True)
    def __truediv__(self, o): return self._u(o, FDIV)
    def __rtruediv__(self, o): return self._u(o, FDIV, True)


# ------------------------------------------------------------------------------------------
# contracts of the callees of integrate
# ------------------------------------------------------------------------------------------
class StepContract(Contract):
    """BaseSDESolver.step as seen by integrate: a function of (t0, t1, y0, extra0) -- every concrete
    solver's step is separately checked to read nothing else and to write nothing (C13 frame)."""
    qualname = 'torchsde._core.base_solver.BaseSDESolver.step'

    def requires(self, E, cx, a):
        return [('t0<t1', to_z3(a['t0']) < to_z3(a['t1']))]

    def apply(self, E, cx, a, lineno):
        if not cx.state.get('skip_step_pre'):
            for n, f in self.requires(E, cx, a):
                cx.oblige(f'call-pre.step.{n}@L{lineno}', f, 'call-pre', lineno)
        t0, t1 = to_z3(a['t0']), to_z3(a['t1'])
        log = cx.state.setdefault('bm_queries', [])
        log.append((t0, t1))
        cx.state['n_steps'] = cx.state.get('n_steps', 0) + 1
        gh = cx.state.get('ghost')
        if gh is not None and getattr(gh, 'count_steps', True):
            gh.k = gh.k + 1
            cx.assume(gh.grid_def(gh.k))
        return (Opaque(STEP_Y(t0, t1, a['y0'].e, a['extra0'].e)), Opaque(STEP_E(t0, t1, a['y0'].e, a['extra0'].e)))


class LinearInterpContract(Contract):
    qualname = 'torchsde._core.interp.linear_interp'

    def requires(self, E, cx, a):
        t0, t1, t = to_z3(a['t0']), to_z3(a['t1']), to_z3(a['t'])
        return [('t0<=t<=t1', z3.And(t0 <= t, t <= t1)), ('t0<t1', t0 < t1)]

    def apply(self, E, cx, a, lineno):
        for n, f in self.requires(E, cx, a):
            cx.oblige(f'call-pre.linear_interp.{n}@L{lineno}', f, 'call-pre', lineno)
        t0, t1, t = to_z3(a['t0']), to_z3(a['t1']), to_z3(a['t'])
        r = INTERP(t0, a['y0'].e, t1, a['y1'].e, t)
        # consequences of the elementwise postcondition proved on the real body (LinearInterpBody)
        cx.assume(z3.Implies(t == t1, r == a['y1'].e))
        cx.assume(z3.Implies(t == t0, r == a['y0'].e))
        return Opaque(r)


class LinearInterpBody(Contract):
    """The real body of linear_interp on a generic element (all operations are elementwise in the tensors)."""
    qualname = 'torchsde._core.interp.linear_interp'

    def harness(self, E, cx):
        return {k: cx.real(k) for k in ('t0', 'y0', 't1', 'y1', 't')}

    def requires(self, E, cx, a):
        return [('order', z3.And(a['t0'].e <= a['t'].e, a['t'].e <= a['t1'].e)), ('nondeg', a['t0'].e < a['t1'].e)]

    def ensures(self, E, cx, a, r):
        t0, y0, t1, y1, t = [a[k].e for k in ('t0', 'y0', 't1', 'y1', 't')]
        if not isinstance(r, SV):
            return [('returns-number', z3.BoolVal(False))]
        return [('interp', r.e == y0 + (t - t0) / (t1 - t0) * (y1 - y0)),
                ('at_t1', z3.Implies(t == t1, r.e == y1)), ('at_t0', z3.Implies(t == t0, r.e == y0)),
                ('convex', z3.Implies(y0 <= y1, z3.And(y0 <= r.e, r.e <= y1)))]


class LinearInterpRejects(Contract):
    """Outside t0 <= t <= t1 the real body raises AssertionError (never extrapolates silently)."""
    qualname = 'torchsde._core.interp.linear_interp'

    def harness(self, E, cx):
        return {k: cx.real(k) for k in ('t0', 'y0', 't1', 'y1', 't')}

    def requires(self, E, cx, a):
        return [('outside', z3.Or(a['t'].e < a['t0'].e, a['t'].e > a['t1'].e))]

    def must_raise(self, E, cx, a):
        return {'AssertionError': z3.BoolVal(True)}


class ComputeErrorContract(Contract):
    qualname = 'torchsde._core.adaptive_stepping.compute_error'
    EPS = z3.RealVal('1/10000000')

    def apply(self, E, cx, a, lineno):
        r = ERR(a['y11'].e, a['y12'].e, to_z3(a['rtol']), to_z3(a['atol']))
        cx.assume(r >= self.EPS)
        return SV(r)


POW = z3.Function('pow', R, R, R)


def pow_hook(engine, a, b, cx, lineno):
    """x ** a with non-integer exponent: uninterpreted pow with the axioms (T5)
    pow(x,a) > 0 for x > 0;  pow(x,0) = 1;  pow(1,a) = 1;  x <= y => pow(x,a) <= pow(y,a) for a >= 0;
    x <= 1 and a >= 0 => pow(x,a) <= 1; x >= 1 and a >= 0 => pow(x, a) >= 1;
    0 < x < 1 and a > 0 => pow(x, a) < 1;  0 < x <= 1 and 0 <= a <= 1 => pow(x,a) >= x;  x >= 1 and 0 <= a <= 1 => pow(x,a) <= x
    (all instantiated for the terms created on the path)."""
    ea, eb = to_z3(a), to_z3(b)
    ea = z3.ToReal(ea) if ea.sort() == Z else ea
    eb = z3.ToReal(eb) if eb.sort() == Z else eb
    t = POW(ea, eb)
    terms = cx.state.setdefault('pow_terms', [])
    cx.assume(z3.Implies(ea > 0, t > 0))
    cx.assume(z3.Implies(eb == 0, t == 1))
    cx.assume(z3.Implies(ea == 1, t == 1))
    cx.assume(z3.Implies(z3.And(ea > 0, ea <= 1, eb >= 0), t <= 1))
    cx.assume(z3.Implies(z3.And(ea >= 1, eb >= 0), t >= 1))
    cx.assume(z3.Implies(z3.And(ea > 0, ea < 1, eb > 0), t < 1))
    cx.assume(z3.Implies(z3.And(ea > 1, eb > 0), t > 1))
    cx.assume(z3.Implies(z3.And(ea > 0, ea <= 1, eb >= 0, eb <= 1), t >= ea))
    cx.assume(z3.Implies(z3.And(ea >= 1, eb >= 0, eb <= 1), t <= ea))
    for (oa, ob, ot) in terms:
        cx.assume(z3.Implies(z3.And(ob == eb, eb >= 0, oa > 0, ea > 0, oa <= ea), ot <= t))
        cx.assume(z3.Implies(z3.And(ob == eb, eb >= 0, oa > 0, ea > 0, ea <= oa), t <= ot))
    terms.append((ea, eb, t))
    return SV(t)


class UpdateStepSizeBody(Contract):
    """Real body of update_step_size against the controller contract of C14.

    clauses='property': what the property itself demands of the controller (positive step; a rejected step is retried strictly smaller,
    by a uniform factor c < 1 and never below a fifth);  clauses='helper': the additional facts the call-site contract
    UpdateStepSizeContract hands to the modular proof of integrate() (an accepted step never shrinks, factor in [1/5, 7/5]).  The property
    does not demand the helper clauses: when they fail the modular proof is not used and the loop is decided with the controller inlined."""
    qualname = 'torchsde._core.adaptive_stepping.update_step_size'

    def __init__(self, clauses='all'):
        self.clauses = clauses

    def harness(self, E, cx):
        a = {'error_estimate': cx.real('err'), 'prev_step_size': cx.real('prev')}
        per = cx.real('per')
        isnone = cx.fresh('per_none', z3.BoolSort())
        from pyvc.values import OptVal
        a['prev_error_ratio'] = OptVal(isnone, per)
        a['$per'] = per
        a['$per_none'] = isnone
        return a

    def requires(self, E, cx, a):
        return [('err>0', a['error_estimate'].e > 0), ('prev>0', a['prev_step_size'].e > 0),
                ('per>0', z3.Or(a['$per_none'], a['$per'].e > 0))]

    def ensures(self, E, cx, a, r):
        new, per = r
        err, prev = a['error_estimate'].e, a['prev_step_size'].e
        from fractions import Fraction
        c = pow_hook(E, Fraction(9, 10), Fraction(2, 3), cx, 0).e
        out = [
            ('positive', new.e > 0),
            ('reject-shrinks', z3.Implies(err > 1, z3.And(new.e <= c * prev, c < 1, new.e >= z3.RealVal('1/5') * prev))),
            ('accept-never-shrinks', z3.Implies(err <= 1, z3.And(new.e >= prev, new.e <= z3.RealVal('7/5') * prev))),
            ('bounded-factor', z3.And(new.e >= z3.RealVal('1/5') * prev, new.e <= z3.RealVal('7/5') * prev)),
        ]
        helper = ('accept-never-shrinks', 'bounded-factor')
        if self.clauses == 'property':
            out = [o for o in out if o[0] not in helper]
        elif self.clauses == 'helper':
            out = [o for o in out if o[0] in helper]
        return out


class UpdateStepSizeContract(Contract):
    """Call-site contract (proved by UpdateStepSizeBody)."""
    qualname = 'torchsde._core.adaptive_stepping.update_step_size'
    C = z3.Real('c_shrink')

    def apply(self, E, cx, a, lineno):
        err, prev = to_z3(a['error_estimate']), to_z3(a['prev_step_size'])
        cx.oblige(f'call-pre.update_step_size.err>0@L{lineno}', err > 0, 'call-pre', lineno)
        cx.oblige(f'call-pre.update_step_size.prev>0@L{lineno}', prev > 0, 'call-pre', lineno)
        new = cx.fresh('new_step')
        per = cx.fresh('new_per')
        c = self.C
        cx.assume(z3.And(c > 0, c < 1))
        cx.assume(new > 0)
        cx.assume(z3.Implies(err > 1, z3.And(new <= c * prev, new >= z3.RealVal('1/5') * prev)))
        cx.assume(z3.Implies(err <= 1, z3.And(new >= prev, new <= z3.RealVal('7/5') * prev)))
        cx.assume(per > 0)
        from pyvc.values import OptVal
        return (SV(new), OptVal(z3.BoolVal(False), SV(per)))


class ComputeErrorBody(Contract):
    """Real body of compute_error on explicit (1 x 2) tensors with real elements."""
    qualname = 'torchsde._core.adaptive_stepping.compute_error'

    def harness(self, E, cx):
        import numpy as np
        from pyvc.tensor import XT
        def t(name):
            a = np.empty((1, 2), dtype=object)
            a[0, 0] = cx.real(name + '0')
            a[0, 1] = cx.real(name + '1')
            return XT(a)
        return {'y11': t('a'), 'y12': t('b'), 'rtol': cx.real('rtol'), 'atol': cx.real('atol')}

    def requires(self, E, cx, a):
        return [('rtol>=0', a['rtol'].e >= 0), ('atol>=0', a['atol'].e >= 0)]

    def ensures(self, E, cx, a, r):
        if not isinstance(r, SV):
            return [('returns-number', z3.BoolVal(False))]
        eps = z3.RealVal('1/10000000')
        ab = lambda x: z3.If(x >= 0, x, -x)
        mx = lambda x, y: z3.If(x >= y, x, y)
        y11, y12 = a['y11'].a.reshape(-1), a['y12'].a.reshape(-1)
        ssq = 0
        for p, q in zip(y11, y12):
            tol = mx(a['rtol'].e * mx(ab(p.e), ab(q.e)) + a['atol'].e, eps)
            ssq = ssq + ((p.e - q.e) / tol) * ((p.e - q.e) / tol)
        rms2 = ssq / 2
        return [('>=eps', r.e >= eps),
                ('is-rms-of-scaled-difference', z3.Implies(r.e > eps, r.e * r.e == rms2)),
                ('clamped-only-when-small', z3.Implies(r.e == eps, rms2 <= eps * eps))]
