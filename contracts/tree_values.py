"""Values stored in the interval tree: extraction of the Brownian-bridge split from the real source,
its algebraic obligations (C03: Chen/additivity; C04: covariance), and the value contract of
_increment_and_space_time_levy_area / _increment_and_levy_area."""
import z3

from pyvc import interp as I
from pyvc.contract import Contract
from pyvc.values import SV, SB, OptVal, SymRef, Unsupported, to_z3
from contracts import tree as T
from contracts.tree import Z, R, B, VW, VH, RANDN, Q, QT


class MissCache:
    """A cache that always misses (the except KeyError branch is executed) and records what is stored."""

    def __init__(self):
        self.stored = []

    def __pyvc_getitem__(self, engine, key, cx, lineno):
        raise I.PyExc('KeyError', 'cache miss', lineno)

    def __pyvc_setitem__(self, engine, key, v, cx, lineno):
        self.stored.append((key, v))


class ParentValue(Contract):
    """Call-site contract of parent._increment_and_space_time_levy_area(): returns the parent's (W, H)."""
    qualname = Q + '_increment_and_space_time_levy_area'

    def apply(self, E, cx, a, lineno):
        cx.state.setdefault('value_calls', []).append(a['self'])
        n = a['self'].e
        return (SV(VW(n)), SV(VH(n)))


class TopValue(ParentValue):
    qualname = QT + '_increment_and_space_time_levy_area'


class RandnContract(Contract):
    """_Interval._randn(seed): generic element of the standard-normal array drawn from `seed` (T2/T4)."""
    qualname = Q + '_randn'

    def apply(self, E, cx, a, lineno):
        cx.state.setdefault('randn_calls', []).append((a['self'], a['seed']))
        return SV(RANDN(to_z3(a['seed'])))


def extract_split(E, cx_factory=None):
    """Symbolically execute the real miss branch of _increment_and_space_time_levy_area for a generic non-top node.
    Returns a list of path records: dict(pc, have_H, is_left, W, H, node, parent, world, randn, value_calls, stored)."""
    from pyvc.interp import PyExc
    E.contracts[ParentValue.qualname] = ParentValue()
    E.contracts[TopValue.qualname] = TopValue()
    E.contracts[RandnContract.qualname] = RandnContract()
    fv = E.function(Q + '_increment_and_space_time_levy_area')
    records = []

    def run(cx):
        w = T.World(E, cx)
        w.cache = MissCache()
        s = cx.fresh('self', Z)
        h = w.heap
        for n, f in w.wf() + w.seeds_wf():
            cx.assume(f)
        cx.assume(z3.And(h.alloc(s), s != w.top))
        for ax in w.round_axioms():
            cx.assume(ax)
        E.verifying = fv.qualname
        r = E.call_function(fv, [SymRef(s, 'node')], {}, cx, 0)
        records.append({'cx': cx, 'w': w, 'self': s, 'result': r, 'stored': w.cache.stored,
                        'randn': cx.state.get('randn_calls', []), 'value_calls': cx.state.get('value_calls', [])})
        return r
    n0 = len(E.all_obligations)
    results = E.explore(run, 'extract')
    E.verifying = None
    # no path of the miss branch may raise: a path that raises yields no record and would silently drop its obligations (vacuity guard)
    extract_split.raised = [f'{out[1].cls}: {out[1].msg} (line {out[1].lineno})' for _cx, out in results if out[0] == 'raise']
    return records, E.all_obligations[n0:]


# ----------------------------------------------------------------------------------------------
# algebra on the extracted split
# ----------------------------------------------------------------------------------------------
SYM = {k: z3.Real(k) for k in ('Wp', 'Hp', 'S', 'M', 'E', 'X1', 'X2')}


def canon(rec):
    """Rewrite a path record over canonical symbols; returns dict(have_H, is_left, W, H, defs, leftovers)."""
    w, s = rec['w'], rec['self']
    h = w.heap
    P = z3.Select(h.arr['_parent'], s)
    pairs = [(VW(P), SYM['Wp']), (VH(P), SYM['Hp']), (z3.Select(h.arr['_start'], P), SYM['S']),
             (z3.Select(h.arr['_midway'], P), SYM['M']), (z3.Select(h.arr['_end'], P), SYM['E']),
             (RANDN(z3.Select(h.arr['_W_seed'], P)), SYM['X1']), (RANDN(z3.Select(h.arr['_H_seed'], P)), SYM['X2'])]
    sub = lambda e: z3.simplify(z3.substitute(e, *pairs))
    cx = rec['cx']
    defs = []
    have_H = is_left = None
    hw = None
    for f in cx.pc:
        txt = str(f)
        if 'sqrt!' in txt or 'tsqrt!' in txt:
            defs.append(sub(f))
        fs = z3.simplify(f)
        if z3.eq(fs, w.have_H):
            have_H = True
        elif z3.eq(fs, z3.Not(w.have_H)):
            have_H = False
        if z3.eq(fs, w.HW):
            hw = True
        elif z3.eq(fs, z3.Not(w.HW)):
            hw = False
        il = z3.Select(h.arr['_is_left'], s)
        if z3.eq(fs, il):
            is_left = True
        elif z3.eq(fs, z3.Not(il)):
            is_left = False
    Wv, Hv = rec['result']
    out = {'have_H': have_H, 'is_left': is_left, 'halfway_tree': hw, 'W': sub(Wv.e), 'H': sub(Hv.e) if Hv is not None else None, 'defs': defs}
    left = set()
    allowed = set(SYM) | {'sqrt_3_1'}
    for e in [out['W']] + ([out['H']] if out['H'] is not None else []):
        stack = [e]
        while stack:
            x = stack.pop()
            if z3.is_app(x):
                if x.decl().kind() == z3.Z3_OP_UNINTERPRETED:
                    nm = str(x.decl().name())
                    if x.num_args() > 0 or not (nm in allowed or nm.startswith('sqrt!') or nm.startswith('sqrt_')):
                        left.add(str(x)[:60])
                        continue
                elif x.decl().kind() == z3.Z3_OP_SELECT:
                    left.add(str(x)[:60])
                    continue
                stack.extend(x.children())
    out['leftovers'] = sorted(left)
    out['stored_ok'] = (len(rec['stored']) == 1 and rec['stored'][0][1] is not None and
                        z3.eq(z3.simplify(rec['stored'][0][0].e), z3.simplify(s)))
    # the value stored in the cache is the value returned
    sv = rec['stored'][0][1] if rec['stored'] else None
    out['stored_is_result'] = bool(sv is not None and isinstance(sv, tuple) and len(sv) == 2 and sv[0] is Wv and (sv[1] is Hv))
    seeds = [str(z3.simplify(x[1].e)) for x in rec['randn']]
    out['randn_seeds'] = seeds
    out['randn_nodes'] = [str(z3.simplify(x[0].e)) for x in rec['randn']]
    out['parent_str'] = str(z3.simplify(P))
    out['expect_seeds'] = [str(z3.simplify(z3.Select(h.arr['_W_seed'], P))), str(z3.simplify(z3.Select(h.arr['_H_seed'], P)))]
    return out


def prove(rep, name, hyps, goal, kind='lemma', statement=None, timeout=30000, **kw):
    import time
    t0 = time.time()
    s = z3.Solver()
    s.set('timeout', timeout)
    for h in hyps:
        s.add(h)
    s.add(z3.Not(goal))
    r = s.check()
    st = 'discharged' if r == z3.unsat else ('refuted' if r == z3.sat else 'unknown')
    model = None
    if r == z3.sat:
        m = s.model()
        model = {str(d.name()): str(m[d]) for d in m.decls() if d.arity() == 0}
    return rep.add(name, kind, st, 'z3-' + z3.get_version_string(), time.time() - t0, model=model,
                   statement=statement or str(goal)[:200], **kw)


def coeffs(expr, defs):
    """Coefficient of each Gaussian input (valid once linearity is proved): value at the unit vectors."""
    gs = ['Wp', 'Hp', 'X1', 'X2']
    out = {}
    for g in gs:
        pairs = [(SYM[k], z3.RealVal(1 if k == g else 0)) for k in gs]
        out[g] = z3.simplify(z3.substitute(expr, *pairs))
    return out


def split_obligations(rep, recs, prefix, which=('chen', 'law')):
    cs = [canon(r) for r in recs]
    glob = list(rep.E.global_axioms)
    l, r_ = SYM['M'] - SYM['S'], SYM['E'] - SYM['M']
    hlen = SYM['E'] - SYM['S']
    base = [SYM['S'] < SYM['M'], SYM['M'] < SYM['E']] + glob
    by = {(c['have_H'], c['halfway_tree'], c['is_left']): c for c in cs}
    for c in cs:
        arm = f'have_H={c["have_H"]},is_left={c["is_left"]}' + (f',halfway_tree={c["halfway_tree"]}' if c['halfway_tree'] is not None else '')
        ok = not c['leftovers']
        rep.add(f'{prefix}/split[{arm}]/depends-only-on(parent W,H,start,midway,end,noise)', 'frame',
                'discharged' if ok else 'refuted', 'pyvc-exec', model=None if ok else {'other terms': c['leftovers']})
        ok = c['stored_ok'] and c['stored_is_result']
        rep.add(f'{prefix}/split[{arm}]/cache-stores-the-returned-value-under-self', 'post', 'discharged' if ok else 'refuted', 'pyvc-exec')
        exp = c['expect_seeds'][:2 if c['have_H'] else 1]
        ok = c['randn_seeds'] == exp and all(n == c['parent_str'] for n in c['randn_nodes'])
        rep.add(f'{prefix}/split[{arm}]/noise-from-parent-seeds(W_seed[,H_seed])', 'post', 'discharged' if ok else 'refuted', 'pyvc-exec',
                model=None if ok else {'seeds': c['randn_seeds'], 'expected': exp})
    arms = sorted({(k[0], k[1]) for k in by}, key=str)
    for hh, hw in arms:
        L, Rr = by.get((hh, hw, True)), by.get((hh, hw, False))
        tag = f'{prefix}/split[have_H={hh}' + (f',halfway_tree={hw}' if hw is not None else '') + ']'
        if L is None or Rr is None:
            rep.add(f'{tag}/both-children-covered', 'post', 'refuted', 'pyvc-exec')
            continue
        defs = L['defs'] + Rr['defs'] + base
        if 'chen' in which:
            prove(rep, f'{tag}/W_left+W_right=W_parent', defs, L['W'] + Rr['W'] == SYM['Wp'])
            if hh:
                prove(rep, f'{tag}/chen-H', defs,
                      r_ * (Rr['H'] + L['W'] / 2) + l * (L['H'] - Rr['W'] / 2) == (l + r_) * SYM['Hp'],
                      statement='r (H_r + W_l/2) + l (H_l - W_r/2) == (l + r) H_parent')
        if 'law' in which:
            outs = {'W_l': L['W'], 'W_r': Rr['W']}
            if hh:
                outs.update({'H_l': L['H'], 'H_r': Rr['H']})
            var = {'Wp': hlen, 'Hp': hlen / 12 if hh else z3.RealVal(0), 'X1': z3.RealVal(1), 'X2': z3.RealVal(1)}
            cf = {}
            for nm, e in outs.items():
                cf[nm] = coeffs(e, defs)
                lin = sum(cf[nm][g] * SYM[g] for g in ('Wp', 'Hp', 'X1', 'X2'))
                prove(rep, f'{tag}/law.linear[{nm}]', defs, e == lin, statement=f'{nm} is linear in (W_parent, H_parent, X1, X2)')
            want = {('W_l', 'W_l'): l, ('W_r', 'W_r'): r_, ('W_l', 'W_r'): z3.RealVal(0)}
            if hh:
                want.update({('H_l', 'H_l'): l / 12, ('H_r', 'H_r'): r_ / 12, ('W_l', 'H_l'): 0, ('W_r', 'H_r'): 0,
                             ('W_l', 'H_r'): 0, ('H_l', 'W_r'): 0, ('H_l', 'H_r'): 0})
            for (a, b), val in want.items():
                cov = sum(cf[a][g] * cf[b][g] * var[g] for g in ('Wp', 'Hp', 'X1', 'X2'))
                prove(rep, f'{tag}/law.cov[{a},{b}]', defs, cov == val,
                      statement=f'Cov({a},{b}) == {val} given Var W_parent = h, Var H_parent = h/12, unit independent noise')
