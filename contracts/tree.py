"""Interval tree of torchsde._brownian.brownian_interval: heap model, well-formedness, contracts.

Nodes are references into a symbolic heap (pyvc.heap); the top-level BrownianInterval is the node
`top`.  Times are reals; `_round` is an uninterpreted function with the axioms of T5 (idempotent,
monotone; in grid mode it maps onto multiples of a unit u > 0 and moves a point by at most u/2).
"""
import z3

from pyvc import interp as I
from pyvc.contract import Contract
from pyvc.heap import Heap, FieldSpec, Z, R, B
from pyvc.values import SV, SB, OptVal, SymRef, Unsupported, to_z3, b2z
from contracts.integrate import SymList

M_BI = 'torchsde._brownian.brownian_interval'
Q = M_BI + '._Interval.'
QT = M_BI + '.BrownianInterval.'

ROUND = z3.Function('round_', R, R)
KOF = z3.Function('grid_index', R, Z)
SEED = z3.Function('SEED', Z, Z, Z, Z, Z, Z)        # (entropy, spawn_key, depth, pool_size, word) -> seed
RANDN = z3.Function('RANDN', Z, R)                   # generic element of randn(size, seed)
VW = z3.Function('VW', Z, R)                         # generic element of the increment of node n
VH = z3.Function('VH', Z, R)                         # generic element of the space-time Levy area of node n


def has_mid(h, ref):
    return z3.Not(z3.Select(h.arr['_midway#none'], ref))


FIELDS = [
    FieldSpec('_start', R), FieldSpec('_end', R), FieldSpec('_midway', R, optional=True),
    FieldSpec('_parent', Z, ref=True), FieldSpec('_is_left', B),
    FieldSpec('_left_child', Z, ref=True, guard=has_mid), FieldSpec('_right_child', Z, ref=True, guard=has_mid),
    FieldSpec('_spawn_key', Z, guard=has_mid), FieldSpec('_depth', Z, guard=has_mid),
    FieldSpec('_W_seed', Z, guard=has_mid), FieldSpec('_H_seed', Z, guard=has_mid),
    FieldSpec('_left_a_seed', Z, guard=has_mid), FieldSpec('_right_a_seed', Z, guard=has_mid),
]
NODE_FIELDS = {f.name for f in FIELDS}


class World:
    """Everything symbolic about one BrownianInterval on one path."""

    def __init__(self, E, cx, grid=None):
        self.E, self.cx = E, cx
        self.heap = Heap(cx, FIELDS)
        self.top = z3.IntVal(1)
        self.HW = cx.fresh('halfway_tree', B)
        self.grid = cx.fresh('grid_mode', B) if grid is None else z3.BoolVal(grid)   # tol > 0
        self.u = cx.fresh('u')                                                      # grid unit
        self.tol = cx.fresh('tol')                                                  # top._tol:  0 when not in grid mode, else 0 < tol <= u
        self.have_H = cx.fresh('have_H', B)
        self.entropy = cx.fresh('entropy', Z)
        self.pool = cx.fresh('pool_size', Z)
        self.cache = None
        self.topref = SymRef(self.top, 'node')
        self.extra = {}
        cx.state['world'] = self

    # ------------------------------------------------------------------ rounding (T5)
    def round_axioms(self, *xs):
        # _round = round(x, ndigits) with ndigits = -int(log10(tol)):  the grid unit u = 10**-ndigits satisfies tol <= u < 10 tol (T5)
        out = [z3.Implies(self.HW, self.grid), self.u > 0,
               z3.If(self.grid, z3.And(self.tol > 0, self.tol <= self.u, self.u < 10 * self.tol), self.tol == 0)]
        x, y = z3.Reals('x_ y_')
        out.append(z3.ForAll([x], ROUND(ROUND(x)) == ROUND(x), patterns=[ROUND(x)]))
        out.append(z3.ForAll([x, y], z3.Implies(x <= y, ROUND(x) <= ROUND(y)), patterns=[z3.MultiPattern(ROUND(x), ROUND(y))]))
        out.append(z3.Implies(z3.Not(self.grid), z3.ForAll([x], ROUND(x) == x, patterns=[ROUND(x)])))
        out.append(z3.Implies(self.grid, z3.ForAll([x], z3.And(ROUND(x) == self.u * z3.ToReal(KOF(ROUND(x))),
                                                              ROUND(x) - x <= self.u / 2, x - ROUND(x) <= self.u / 2),
                                                   patterns=[ROUND(x)])))
        return out

    def rounded(self, x):
        return ROUND(x) == x

    def grid_gap(self, x, y):
        """Instance of the grid-gap lemma (proved once from the rounding axioms, obligation C07/lemma.grid-gap):
        two distinct grid points are at least one unit apart."""
        return z3.Implies(z3.And(self.grid, ROUND(x) == x, ROUND(y) == y, x < y), y - x >= self.u)

    # ------------------------------------------------------------------ well-formedness
    def wf(self, h=None):
        h = h or self.heap
        n = z3.Int('n_')
        S, En, Mi, MN = h.arr['_start'], h.arr['_end'], h.arr['_midway'], h.arr['_midway#none']
        P, L, Rr, IL = h.arr['_parent'], h.arr['_left_child'], h.arr['_right_child'], h.arr['_is_left']
        top = self.top
        al = lambda r: z3.And(r >= 1, r <= h.nalloc)
        a = z3.ForAll([n], z3.Implies(al(n), z3.And(
            S[n] <= En[n], z3.Implies(n != top, S[n] < En[n]), ROUND(S[n]) == S[n], ROUND(En[n]) == En[n],
            S[top] <= S[n], En[n] <= En[top])), patterns=[S[n]])
        b = z3.ForAll([n], z3.Implies(z3.And(al(n), z3.Not(MN[n])), z3.And(
            S[n] < Mi[n], Mi[n] < En[n], ROUND(Mi[n]) == Mi[n],
            al(L[n]), al(Rr[n]), L[n] != Rr[n], L[n] != top, Rr[n] != top, L[n] != n, Rr[n] != n,
            S[L[n]] == S[n], En[L[n]] == Mi[n], S[Rr[n]] == Mi[n], En[Rr[n]] == En[n],
            P[L[n]] == n, P[Rr[n]] == n, IL[L[n]], z3.Not(IL[Rr[n]]))), patterns=[Mi[n]])
        c = z3.ForAll([n], z3.Implies(z3.And(al(n), n != top), z3.And(
            al(P[n]), z3.Not(MN[P[n]]), P[n] != n,
            z3.Implies(IL[n], L[P[n]] == n), z3.Implies(z3.Not(IL[n]), Rr[P[n]] == n))), patterns=[P[n]])
        d = z3.And(P[top] == 0, h.nalloc >= 1)
        return [('wf.nodes', a), ('wf.children', b), ('wf.parent', c), ('wf.top', d)]

    def seeds_wf(self, h=None):
        """Every split node owns (spawn_key, depth) derived from its parent and seeds derived from them."""
        h = h or self.heap
        n = z3.Int('n_')
        MN, P, IL = h.arr['_midway#none'], h.arr['_parent'], h.arr['_is_left']
        SK, D = h.arr['_spawn_key'], h.arr['_depth']
        al = lambda r: z3.And(r >= 1, r <= h.nalloc)
        body = z3.And(
            z3.If(n == self.top, z3.And(SK[n] == 0, D[n] == 0),
                  z3.And(SK[n] == 2 * SK[P[n]] + z3.If(IL[n], 0, 1), D[n] == D[P[n]] + 1)),
            SK[n] >= 0, D[n] >= 0,
            h.arr['_W_seed'][n] == SEED(self.entropy, SK[n], D[n], self.pool, 0),
            h.arr['_H_seed'][n] == SEED(self.entropy, SK[n], D[n], self.pool, 1),
            h.arr['_left_a_seed'][n] == SEED(self.entropy, SK[n], D[n], self.pool, 2),
            h.arr['_right_a_seed'][n] == SEED(self.entropy, SK[n], D[n], self.pool, 3))
        return [('wf.seeds', z3.ForAll([n], z3.Implies(z3.And(al(n), z3.Not(MN[n])), body), patterns=[SK[n]]))]

    def refines(self, old, new=None):
        """`new` only adds nodes and splits leaves of `old`; nothing else changes."""
        new = new or self.heap
        n = z3.Int('n_')
        al_old = z3.And(n >= 1, n <= old.nalloc)
        same = lambda f: new.arr[f][n] == old.arr[f][n]
        stable = ['_start', '_end', '_parent', '_is_left']
        split = ['_midway', '_left_child', '_right_child', '_spawn_key', '_depth', '_W_seed', '_H_seed', '_left_a_seed', '_right_a_seed']
        body = z3.And(*[same(f) for f in stable],
                      z3.Implies(z3.Not(old.arr['_midway#none'][n]),
                                 z3.And(z3.Not(new.arr['_midway#none'][n]), *[same(f) for f in split])))
        return z3.And(new.nalloc >= old.nalloc,
                      z3.ForAll([n], z3.Implies(al_old, body), patterns=[new.arr[f][n] for f in stable + split + ['_midway#none']]))

    def unchanged_except(self, old, node, new=None):
        """Frame of _split_exact: every old node other than `node` keeps all its fields."""
        new = new or self.heap
        n = z3.Int('n_')
        al_old = z3.And(n >= 1, n <= old.nalloc)
        allf = [k for k in new.arr]
        return z3.ForAll([n], z3.Implies(z3.And(al_old, n != node), z3.And(*[new.arr[f][n] == old.arr[f][n] for f in allf])),
                         patterns=[new.arr[f][n] for f in allf])


# ----------------------------------------------------------------------------------------------
# interpreter hooks
# ----------------------------------------------------------------------------------------------
TOP_ONLY = {'_size', '_dtype', '_device', '_entropy', '_levy_area_approximation', '_dt', '_tol', '_pool_size', '_cache_size',
            '_halfway_tree', '_round', '_increment_and_space_time_levy_area_cache', '_last_interval', '_have_H', '_have_A',
            '_w_h', '_top_a_seed', '_average_dt', '_tree_dt', '_num_evaluations'}


class RoundFn:
    def __pyvc_call__(self, engine, args, kwargs, cx, lineno):
        x = args[0]
        if cx.state['world'].extra.get('$identity_round'):
            return x
        return SV(ROUND(to_z3(x) if to_z3(x).sort() == R else z3.ToReal(to_z3(x))))


def install(E):
    """getattr/setattr/instantiate hooks for SymRef nodes."""
    prev_get = E.hooks.get('getattr')
    prev_set = E.hooks.get('setattr')
    prev_inst = E.hooks.get('instantiate')
    mod = E.module(M_BI)
    cls_interval = mod.globals['_Interval']
    cls_top = mod.globals['BrownianInterval']

    def getattr_hook(eng, obj, name, cx, lineno):
        if isinstance(obj, SymRef) and obj.kind == 'node':
            w = cx.state['world']
            h = w.heap
            if name in NODE_FIELDS:
                return h.read(obj.e, name, cx, lineno, 'node')
            if name == '_top':
                cx.oblige(f'no-raise.AttributeError(None._top)@L{lineno}', obj.e != 0, 'no-raise', lineno)
                return w.topref
            if name in TOP_ONLY:
                if obj is not w.topref:
                    cx.oblige(f'no-raise.AttributeError({name} on a non-top node)@L{lineno}', obj.e == w.top, 'no-raise', lineno)
                return w.top_field(name, cx, lineno) if hasattr(w, 'top_field') else top_field(w, name, cx, lineno)
            # methods: dynamic dispatch on ref == top
            is_top = None
            if obj is w.topref:
                is_top = True
            else:
                e = z3.simplify(obj.e == w.top)
                if z3.is_true(e):
                    is_top = True
                elif z3.is_false(e):
                    is_top = False
            v_i, own_i = cls_interval.lookup(name)
            v_t, own_t = cls_top.lookup(name)
            if own_t is None and own_i is None:
                raise I.PyExc('AttributeError', f'node has no attribute {name}', lineno)
            cx.oblige(f'no-raise.AttributeError(None.{name})@L{lineno}', obj.e != 0, 'no-raise', lineno)
            if v_i is v_t or own_i is None or own_t is None:
                v = v_t if own_t is not None else v_i
                return eng._bind(v, obj, cx, lineno)
            if is_top is None:
                is_top = cx.branch(SB(obj.e == w.top), lineno)
            return eng._bind(v_t if is_top else v_i, obj, cx, lineno)
        if prev_get is not None:
            return prev_get(eng, obj, name, cx, lineno)
        return NotImplemented

    def setattr_hook(eng, obj, name, v, cx, lineno):
        if isinstance(obj, SymRef) and obj.kind == 'node':
            w = cx.state['world']
            if name in NODE_FIELDS:
                w.heap.write(obj.e, name, v, cx, lineno)
                return None
            if name == '_top':
                if v is not w.topref:
                    raise Unsupported('node._top assigned something other than the top object')
                return None
            if name in TOP_ONLY:
                w.extra[name] = v
                return None
            raise I.PyExc('AttributeError', f'_Interval has no slot {name}', lineno)
        if prev_set is not None:
            return prev_set(eng, obj, name, v, cx, lineno)
        return NotImplemented

    def inst_hook(eng, cls, args, kwargs, cx, lineno):
        if cls is cls_interval:
            w = cx.state['world']
            ref = SymRef(w.heap.new(), 'node')
            init, _ = cls.lookup('__init__')
            eng.call(I.BoundMethod(ref, init), args, kwargs, cx, lineno)
            return ref
        if prev_inst is not None:
            return prev_inst(eng, cls, args, kwargs, cx, lineno)
        return NotImplemented

    E.hooks['getattr'] = getattr_hook
    E.hooks['setattr'] = setattr_hook
    E.hooks['instantiate'] = inst_hook

    # numpy SeedSequence model (T2): generate_state(k) -> words SEED(entropy, spawn_key, depth, pool, i)
    class SeedSeq:
        def __init__(self, entropy=None, spawn_key=(), pool_size=4):
            self.entropy, self.spawn_key, self.pool = entropy, tuple(spawn_key), pool_size

        def __pyvc_getattr__(self, engine, name, cx, lineno):
            if name == 'generate_state':
                def gen(k):
                    sk = self.spawn_key + (0, 0)
                    return tuple(SV(SEED(to_z3(self.entropy), to_z3(sk[0]), to_z3(sk[1]), to_z3(self.pool), z3.IntVal(i)))
                                 for i in range(k))
                return I.ExternFunc('SeedSequence.generate_state', gen)
            raise Unsupported(f'SeedSequence.{name}')
    rnd = I.ExternModule('numpy.random', {'SeedSequence': I.ExternFunc('np.random.SeedSequence', lambda **kw: SeedSeq(**kw))})
    E.externs['numpy'].attrs['random'] = rnd


def top_field(w, name, cx, lineno):
    if name in w.extra:
        return w.extra[name]
    if name == '_round':
        return RoundFn()
    if name == '_halfway_tree':
        return SB(w.HW)
    if name == '_tol':
        return SV(w.tol)
    if name == '_have_H':
        return SB(w.have_H)
    if name == '_entropy':
        return SV(w.entropy)
    if name == '_pool_size':
        return SV(w.pool)
    if name == '_increment_and_space_time_levy_area_cache':
        return w.cache
    if name == '_w_h':
        return (SV(VW(w.top)), SV(VH(w.top)))
    raise Unsupported(f'top-level field {name} has no model in this job (line {lineno})')


# ----------------------------------------------------------------------------------------------
# contracts
# ----------------------------------------------------------------------------------------------
def num(E, cx, x, lineno):
    if isinstance(x, OptVal):
        return to_z3(E.unopt(x, cx, lineno))
    return to_z3(x)


class TreeContract(Contract):
    ghost = False

    def __init__(self, ghost=False):
        self.ghost = ghost

    def world(self, E, cx):
        w = World(E, cx)
        if self.ghost:
            ghost_init(w, cx)
        return w

    def base_requires(self, w):
        out = w.wf() + w.seeds_wf() + [(f'round{i}', ax) for i, ax in enumerate(w.round_axioms())]
        if getattr(w, 'ghost', False):
            out += ghost_wf(w)
        return out

    # ghost bookkeeping shared by the contracts that only forward the ghost state
    def ghost_begin(self, w):
        return (w.Wc, w.V) if getattr(w, 'ghost', False) else None

    def ghost_havoc(self, w, cx):
        if getattr(w, 'ghost', False):
            w.Wc = cx.fresh('Wc', RR)
            w.V = cx.fresh('V', RR)

    def ghost_post(self, w, old, saved, cx=None, record=False):
        if not getattr(w, 'ghost', False):
            return []
        st = ghost_stable(w, old, saved[0], saved[1])
        if record and cx is not None:
            cx.state.setdefault('ghost_chain', []).append(
                {'old': old, 'new': w.heap.snapshot(), 'stable': st, 'refines': w.refines(old)})
        return ghost_wf(w) + [('ghost.stable', st)]

    def ghost_post_verify(self, w, old, saved, cx):
        """Post items for verifying a body that only calls ghost-maintaining callees: ghost.stable is chained through
        the recorded call links with explicit instances (ground-only obligation)."""
        if not getattr(w, 'ghost', False):
            return []
        items = list(ghost_wf(w))
        chain = cx.state.get('ghost_chain', [])
        goal_q = ghost_stable(w, old, saved[0], saved[1])
        if not chain:
            return items + [('ghost.stable', goal_q)]
        n = cx.fresh('sk_n', Z)
        hints = []
        for link in chain:
            hints.append(inst(link['stable'], n))
            ref = link['refines']
            hints.append(ref.arg(0))                 # new.nalloc >= old.nalloc
            hints.append(inst(ref.arg(1), n))
        items.append({'name': 'ghost.stable', 'goal': z3.Implies(z3.And(*hints), inst(goal_q, n)), 'ground': True})
        return items


class SplitExact(TreeContract):
    """_split_exact(self, midway): leaf `self` gets two fresh children; nothing else changes."""
    qualname = Q + '_split_exact'

    def harness(self, E, cx):
        w = self.world(E, cx)
        s = cx.fresh('self', Z)
        m = cx.real('midway')
        return {'self': SymRef(s, 'node'), 'midway': m, '$w': w, '$old': w.heap.snapshot()}

    def requires(self, E, cx, a):
        w = a['$w'] if '$w' in a else cx.state['world']
        h = w.heap
        s, m = a['self'].e, to_z3(a['midway'])
        return self.base_requires(w) + [
            ('alloc(self)', h.alloc(s)), ('self-is-leaf', h.sel('_midway#none', s)),
            ('strictly-inside', z3.And(h.sel('_start', s) < ROUND(m), ROUND(m) < h.sel('_end', s))),
        ]

    def post(self, w, old, s, m):
        h = w.heap
        return [
            ('nalloc+2', h.nalloc == old.nalloc + 2),
            ('midway=round(m)', z3.And(z3.Not(h.sel('_midway#none', s)), h.sel('_midway', s) == ROUND(m))),
            # the two children are the two freshly allocated nodes, in either order of allocation (the order is not observable)
            ('children-fresh', z3.Or(z3.And(h.sel('_left_child', s) == old.nalloc + 1, h.sel('_right_child', s) == old.nalloc + 2),
                                     z3.And(h.sel('_left_child', s) == old.nalloc + 2, h.sel('_right_child', s) == old.nalloc + 1))),
            ('children-are-leaves', z3.And(h.sel('_midway#none', old.nalloc + 1), h.sel('_midway#none', old.nalloc + 2))),
            ('refines', w.refines(old)),
            ('frame', w.unchanged_except(old, s)),
            ('self-stable', z3.And(*[h.sel(f, s) == old.sel(f, s) for f in ('_start', '_end', '_parent', '_is_left')])),
        ] + [(n, f, [s, old.nalloc + 1, old.nalloc + 2]) for n, f in w.wf() + w.seeds_wf()]

    def ensures(self, E, cx, a, r):
        return self.post(a['$w'], a['$old'], a['self'].e, to_z3(a['midway']))

    def apply(self, E, cx, a, lineno):
        w = cx.state['world']
        for n, f in self.requires(E, cx, a)[-3:]:
            cx.oblige(f'call-pre._split_exact.{n}@L{lineno}', f, 'call-pre', lineno)
        old = w.heap.snapshot()
        saved = self.ghost_begin(w)
        w.heap.havoc('hs')
        self.ghost_havoc(w, cx)
        for item in self.post(w, old, a['self'].e, to_z3(a['midway'])) + self.ghost_post(w, old, saved, cx, True):
            cx.assume(item[1])
        return None


class Split(TreeContract):
    """_split(self, midway): dyadic mode splits at the rounded halfway point and recurses towards `midway`."""
    qualname = Q + '_split'

    def harness(self, E, cx):
        w = self.world(E, cx)
        s = cx.fresh('self', Z)
        m = cx.real('midway')
        return {'self': SymRef(s, 'node'), 'midway': m, '$w': w, '$old': w.heap.snapshot()}

    def pre(self, w, s, m):
        h = w.heap
        return [('alloc(self)', h.alloc(s)), ('self-is-leaf', h.sel('_midway#none', s)),
                ('midway-rounded', w.rounded(m)),
                ('strictly-inside', z3.And(h.sel('_start', s) < m, m < h.sel('_end', s)))]

    def requires(self, E, cx, a):
        w = a['$w'] if '$w' in a else cx.state['world']
        s, m = a['self'].e, to_z3(a['midway'])
        h = w.heap
        return self.base_requires(w) + self.pre(w, s, m) + [
            ('lemma.grid-gap(S,m)', w.grid_gap(h.sel('_start', s), m)), ('lemma.grid-gap(m,E)', w.grid_gap(m, h.sel('_end', s)))]

    def post(self, w, old, s, m):
        h = w.heap
        return [
            ('self-is-split', z3.Not(h.sel('_midway#none', s))),
            ('exact-when-not-dyadic', z3.Implies(z3.Not(w.HW), h.sel('_midway', s) == m)),
            ('halfway-when-dyadic', z3.Implies(w.HW, h.sel('_midway', s) == ROUND(z3.RealVal('1/2') * (old.sel('_end', s) + old.sel('_start', s))))),
            ('refines', w.refines(old)),
            ('self-stable', z3.And(*[h.sel(f, s) == old.sel(f, s) for f in ('_start', '_end', '_parent', '_is_left')])),
            ('only-descendants-of-self-are-new', self.descend(w, old, s)),
        ] + w.wf() + w.seeds_wf()

    def descend(self, w, old, s):
        """Frame: old nodes other than `self` are unchanged (all new structure hangs below self)."""
        return w.unchanged_except(old, s)

    def ensures(self, E, cx, a, r):
        return self.post(a['$w'], a['$old'], a['self'].e, to_z3(a['midway'])) + self.ghost_post_verify(a['$w'], a['$old'], a.get('$ghost0'), cx)

    def measure(self, w, h, s):
        """dyadic mode: length of self in grid units"""
        return KOF(h.sel('_end', s)) - KOF(h.sel('_start', s))

    def apply(self, E, cx, a, lineno):
        w = cx.state['world']
        s, m = a['self'].e, num(E, cx, a['midway'], lineno)
        for n, f in self.pre(w, s, m):
            cx.oblige(f'call-pre._split.{n}@L{lineno}', f, 'call-pre', lineno)
        dec = cx.state.get('split_measure')
        if dec is not None:
            m1 = self.measure(w, w.heap, s)
            cx.oblige(f'decreases._split@L{lineno}', z3.And(m1 < dec, m1 >= 0), 'decreases', lineno)
        old = w.heap.snapshot()
        saved = self.ghost_begin(w)
        w.heap.havoc('hp')
        self.ghost_havoc(w, cx)
        for n, f in self.post(w, old, s, m) + self.ghost_post(w, old, saved, cx, True):
            cx.assume(f)
        return None

    def before_body(self, E, cx, a):
        w = a['$w']
        # termination measure is checked in the structural (non-ghost) job only
        cx.state['split_measure'] = None if self.ghost else self.measure(w, w.heap, a['self'].e)
        a['$ghost0'] = self.ghost_begin(w)


class LocInner(TreeContract):
    """_loc_inner(self, ta, tb, out): appends to `out` a contiguous tiling of [ta, tb] by allocated nodes."""
    qualname = Q + '_loc_inner'

    def harness(self, E, cx):
        w = self.world(E, cx)
        s = cx.fresh('self', Z)
        ta, tb = cx.real('ta'), cx.real('tb')
        out = SymList(cx.fresh('out_len', Z), cx.fresh('out', z3.ArraySort(Z, Z)))
        return {'self': SymRef(s, 'node'), 'ta': ta, 'tb': tb, 'out': out, '$w': w, '$old': w.heap.snapshot(),
                '$out0': (out.n, out.arr)}

    def pre(self, w, s, ta, tb, out):
        h = w.heap
        return [('alloc(self)', h.alloc(s)), ('rounded', z3.And(w.rounded(ta), w.rounded(tb))),
                ('in-range', z3.And(h.sel('_start', w.top) <= ta, tb <= h.sel('_end', w.top))), ('ta<tb', ta < tb),
                ('out-len>=0', out.n >= 0)]

    def requires(self, E, cx, a):
        w = a['$w'] if '$w' in a else cx.state['world']
        return self.base_requires(w) + self.pre(w, a['self'].e, to_z3(a['ta']), to_z3(a['tb']), a['out'])

    def post(self, w, old, ta, tb, n0, arr0, out, s=None):
        h = w.heap
        i = z3.Int('i_')
        S, En = h.arr['_start'], h.arr['_end']
        arr, n1 = out.arr, out.n
        extra = []
        if s is not None:
            inside = z3.And(old.sel('_start', s) <= ta, tb <= old.sel('_end', s))
            exact = z3.And(ta == old.sel('_start', s), tb == old.sel('_end', s))
            extra = [('self-split-unless-exact', z3.Implies(z3.And(inside, z3.Not(exact)), z3.Not(h.sel('_midway#none', s))))]
        return extra + [
            ('refines', w.refines(old)),
            ('nonempty', n1 > n0),
            ('prefix-kept', z3.ForAll([i], z3.Implies(z3.And(0 <= i, i < n0), arr[i] == arr0[i]), patterns=[arr[i]])),
            ('starts-at-ta', S[arr[n0]] == ta),
            ('ends-at-tb', En[arr[n1 - 1]] == tb),
            ('allocated', z3.ForAll([i], z3.Implies(z3.And(n0 <= i, i < n1), h.alloc(arr[i])), patterns=[arr[i]])),
            ('contiguous', z3.ForAll([i], z3.Implies(z3.And(n0 <= i, i < n1 - 1), En[arr[i]] == S[arr[i + 1]]), patterns=[arr[i]])),
        ] + w.wf() + w.seeds_wf()

    def ensures(self, E, cx, a, r):
        n0, arr0 = a['$out0']
        items = self.post(a['$w'], a['$old'], to_z3(a['ta']), to_z3(a['tb']), n0, arr0, a['out'], a['self'].e)
        seams = [ln - 1 for ln in cx.state.get('out_lens', [])] + [ln for ln in cx.state.get('out_lens', [])]
        out = []
        for n, f in items:
            if n in ('contiguous', 'allocated', 'prefix-kept') and seams:
                out.append((n, f, seams))
            else:
                out.append((n, f))
        return out + self.ghost_post_verify(a['$w'], a['$old'], a.get('$ghost0'), cx)

    def before_body(self, E, cx, a):
        a['$ghost0'] = self.ghost_begin(a['$w'])

    def apply(self, E, cx, a, lineno):
        w = cx.state['world']
        out = a['out']
        ta, tb = num(E, cx, a['ta'], lineno), num(E, cx, a['tb'], lineno)
        for n, f in self.pre(w, a['self'].e, ta, tb, out):
            cx.oblige(f'call-pre._loc_inner.{n}@L{lineno}', f, 'call-pre', lineno)
        old = w.heap.snapshot()
        saved = self.ghost_begin(w)
        n0, arr0 = out.n, out.arr
        w.heap.havoc('hl')
        self.ghost_havoc(w, cx)
        out.n = cx.fresh('out_len', Z)
        out.arr = cx.fresh('out', z3.ArraySort(Z, Z))
        cx.state.setdefault('out_lens', []).append(out.n)
        for n, f in self.post(w, old, ta, tb, n0, arr0, out, a['self'].e) + self.ghost_post(w, old, saved, cx, True):
            cx.assume(f)
        # facts about the previous heap that the caller may need for nodes it already knew (transfer through refines)
        return None


# ----------------------------------------------------------------------------------------------
# ghost Brownian path (C03): Wc, V : position -> generic element, as z3 arrays Real -> Real
#   GP(n):  VW(n) = Wc[E] - Wc[S]   and  (E-S)(VW(n)/2 + VH(n)) = V[E] - V[S] - (E-S) Wc[S]
# laminar invariants:  LD distinct leaves have disjoint interiors;  NB no node boundary strictly inside a leaf
# ----------------------------------------------------------------------------------------------
RR = z3.ArraySort(R, R)


def ghost_init(w, cx):
    w.Wc = cx.fresh('Wc', RR)
    w.V = cx.fresh('V', RR)
    w.ghost = True


def gp_formula(w, h, n, Wc=None, V=None):
    Wc = w.Wc if Wc is None else Wc
    V = w.V if V is None else V
    S, En = h.arr['_start'][n], h.arr['_end'][n]
    ln = En - S
    return z3.And(VW(n) == Wc[En] - Wc[S],
                  z3.Implies(w.have_H, ln * (VW(n) / 2 + VH(n)) == V[En] - V[S] - ln * Wc[S]))


def ghost_wf(w, h=None):
    h = h or w.heap
    n, p = z3.Ints('n_ p_')
    al = lambda r: z3.And(r >= 1, r <= h.nalloc)
    S, En, MN = h.arr['_start'], h.arr['_end'], h.arr['_midway#none']
    gp = z3.ForAll([n], z3.Implies(al(n), gp_formula(w, h, n)), patterns=[VW(n)])
    ld = z3.ForAll([n, p], z3.Implies(z3.And(al(n), al(p), n != p, MN[n], MN[p]), z3.Or(En[n] <= S[p], En[p] <= S[n])),
                   patterns=[z3.MultiPattern(MN[n], MN[p])])
    nb = z3.ForAll([n, p], z3.Implies(z3.And(al(n), al(p), MN[p]),
                                      z3.And(z3.Not(z3.And(S[p] < S[n], S[n] < En[p])), z3.Not(z3.And(S[p] < En[n], En[n] < En[p])))),
                   patterns=[z3.MultiPattern(S[n], MN[p])])
    return [('ghost.path', gp), ('lam.leaves-disjoint', ld), ('lam.no-boundary-inside-leaf', nb)]


def ghost_stable(w, old, oldWc, oldV, new=None):
    """Ghost values at boundary points of old nodes are never changed."""
    new = new or w.heap
    n = z3.Int('n_')
    al_old = z3.And(n >= 1, n <= old.nalloc)
    S, En = old.arr['_start'], old.arr['_end']
    return z3.ForAll([n], z3.Implies(al_old, z3.And(w.Wc[S[n]] == oldWc[S[n]], w.Wc[En[n]] == oldWc[En[n]],
                                                    w.V[S[n]] == oldV[S[n]], w.V[En[n]] == oldV[En[n]])),
                     patterns=[S[n], En[n]])


def split_identities(w, h, p):
    """Lemma instances (proved from the real bridge formulas in the algebra job):
    W_l + W_r = W_p  and  r (H_r + W_l/2) + l (H_l - W_r/2) = (l + r) H_p."""
    Lc, Rc = h.arr['_left_child'][p], h.arr['_right_child'][p]
    l = h.arr['_midway'][p] - h.arr['_start'][p]
    r = h.arr['_end'][p] - h.arr['_midway'][p]
    return z3.And(VW(Lc) + VW(Rc) == VW(p),
                  z3.Implies(w.have_H, r * (VH(Rc) + VW(Lc) / 2) + l * (VH(Lc) - VW(Rc) / 2) == (l + r) * VH(p)))


class GhostSplitExact(SplitExact):
    """_split_exact with the ghost update Wc[m] := Wc[S] + W_left, V[m] := V[S] + l Wc[S] + l (W_left/2 + H_left)."""

    def __init__(self):
        self.ghost = True

    def harness(self, E, cx):
        a = super().harness(E, cx)
        w = a['$w']
        a['$oldWc'], a['$oldV'] = w.Wc, w.V
        return a

    @staticmethod
    def ghost_update(w, h, s):
        Lc = h.arr['_left_child'][s]
        S, M = h.arr['_start'][s], h.arr['_midway'][s]
        l = M - S
        w.Wc = z3.Store(w.Wc, M, w.Wc[S] + VW(Lc))
        w.V = z3.Store(w.V, M, w.V[S] + l * w.Wc[S] + l * (VW(Lc) / 2 + VH(Lc)))

    def ensures(self, E, cx, a, r):
        w = a['$w']
        h = w.heap
        s = a['self'].e
        old = a['$old']
        oldWc, oldV = a['$oldWc'], a['$oldV']
        cx.assume(split_identities(w, h, s))
        old_ghost = dict(ghost_wf_old(w, old, oldWc, oldV))
        self.ghost_update(w, h, s)
        items = self.post(w, old, s, to_z3(a['midway']))
        piv = [s, old.nalloc + 1, old.nalloc + 2]
        new_ghost = dict(ghost_wf(w))
        # --- ghost.path, skolemised by hand with instantiation hints (instances of hypotheses) and the pure lemma
        n = cx.fresh('sk_n', Z)
        Lc, Rc = h.sel('_left_child', s), h.sel('_right_child', s)
        old_wf = dict(w.wf(old))
        hints = [inst(old_ghost['lam.no-boundary-inside-leaf'], n, s), inst(old_ghost['ghost.path'], n),
                 inst(old_ghost['ghost.path'], s), ghost_right_child_lemma(w, old, oldWc, oldV, h, s),
                 inst(old_wf['wf.nodes'], s), inst(old_wf['wf.nodes'], n)]
        al_new = z3.And(n >= 1, n <= h.nalloc)
        goal = z3.Implies(al_new, gp_formula(w, h, n))
        for cname, case in (('self', n == s), ('left', n == Lc), ('right', n == Rc), ('other', z3.And(n != s, n != Lc, n != Rc))):
            items.append({'name': f'ghost.path[{cname}]', 'goal': z3.Implies(z3.And(case, *hints), goal), 'ground': True})
        items += [(nm, f, piv) for nm, f in new_ghost.items() if nm != 'ghost.path']
        items.append(('ghost.stable', ghost_stable(w, old, oldWc, oldV)))
        return items


def inst(q, *terms):
    """Instance of a universally quantified hypothesis (forall-elimination)."""
    assert z3.is_quantifier(q) and q.is_forall() and q.num_vars() == len(terms)
    return z3.substitute_vars(q.body(), *reversed([t if z3.is_expr(t) else z3.IntVal(t) for t in terms]))


def ghost_wf_old(w, old, oldWc, oldV):
    saveWc, saveV = w.Wc, w.V
    w.Wc, w.V = oldWc, oldV
    try:
        return ghost_wf(w, old)
    finally:
        w.Wc, w.V = saveWc, saveV


def ghost_right_child_lemma(w, old, oldWc, oldV, h, s):
    """Instance of the pure lemma `C03/lemma.ghost-right-child` (proved over the reals in the algebra job):
    from GP(parent), W_l + W_r = W_p and the Chen-H split identity, the right child satisfies GP with the updated ghost."""
    Lc, Rc = h.arr['_left_child'][s], h.arr['_right_child'][s]
    S, M, En = old.arr['_start'][s], h.arr['_midway'][s], old.arr['_end'][s]
    l, r = M - S, En - M
    prem = z3.And(w.have_H,
                  (l + r) * (VW(s) / 2 + VH(s)) == oldV[En] - oldV[S] - (l + r) * oldWc[S],
                  VW(Lc) + VW(Rc) == VW(s),
                  r * (VH(Rc) + VW(Lc) / 2) + l * (VH(Lc) - VW(Rc) / 2) == (l + r) * VH(s))
    concl = r * (VW(Rc) / 2 + VH(Rc)) == oldV[En] - (oldV[S] + l * oldWc[S] + l * (VW(Lc) / 2 + VH(Lc))) - r * (oldWc[S] + VW(Lc))
    return z3.Implies(prem, concl)
