"""Contracts for _loc, the value functions and BrownianInterval.__call__ (C03 / C05 / C07)."""
import z3

from pyvc import interp as I
from pyvc.contract import Contract, LoopSpec
from pyvc.values import SV, SB, OptVal, SymRef, Unsupported, to_z3, b2z
from contracts import tree as T
from contracts.tree import (Z, R, B, VW, VH, ROUND, Q, QT, TreeContract, World, ghost_init, ghost_wf, ghost_stable, inst,
                            gp_formula, num)
from contracts.integrate import SymList, SymListView

node = lambda e: SymRef(e, 'node')


def new_ref_list(cx, n=None, arr=None):
    lst = SymList(z3.IntVal(0) if n is None else n, z3.K(Z, z3.IntVal(0)) if arr is None else arr)
    lst.wrap = node
    return lst


def install_empty_list_hook(E):
    """`out = []` inside _Interval._loc creates the (symbolic) result list of node references."""
    orig = E.ex_List

    def ex_List(nd, fr, cx):
        if not nd.elts and fr.func is not None and fr.func.qualname == Q + '_loc':
            return new_ref_list(cx)
        return orig(nd, fr, cx)
    E.ex_List = ex_List


class Loc(TreeContract):
    """_loc(self, ta, tb): tiling of [round(ta), round(tb)] by allocated nodes, tree only refined."""
    qualname = Q + '_loc'

    def harness(self, E, cx):
        w = self.world(E, cx)
        s = cx.fresh('self', Z)
        return {'self': node(s), 'ta': cx.real('ta'), 'tb': cx.real('tb'), '$w': w, '$old': w.heap.snapshot()}

    def pre(self, w, s, ta, tb):
        h = w.heap
        return [('alloc(self)', h.alloc(s)), ('in-range', z3.And(h.sel('_start', w.top) <= ta, tb <= h.sel('_end', w.top))),
                ('round(ta)<round(tb)', ROUND(ta) < ROUND(tb))]

    def requires(self, E, cx, a):
        w = a['$w'] if '$w' in a else cx.state['world']
        return self.base_requires(w) + self.pre(w, a['self'].e, to_z3(a['ta']), to_z3(a['tb']))

    def post(self, w, old, s, ta, tb, lst):
        h = w.heap
        i = z3.Int('i_')
        S, En = h.arr['_start'], h.arr['_end']
        arr, n1 = lst.arr, lst.n
        exact = z3.And(ROUND(ta) == old.sel('_start', s), ROUND(tb) == old.sel('_end', s))
        inside = z3.And(old.sel('_start', s) <= ROUND(ta), ROUND(tb) <= old.sel('_end', s))
        return [
            ('refines', w.refines(old)),
            ('nonempty', n1 >= 1),
            ('starts-at-round(ta)', S[arr[0]] == ROUND(ta)),
            ('ends-at-round(tb)', En[arr[n1 - 1]] == ROUND(tb)),
            ('allocated', z3.ForAll([i], z3.Implies(z3.And(0 <= i, i < n1), h.alloc(arr[i])), patterns=[arr[i]])),
            ('contiguous', z3.ForAll([i], z3.Implies(z3.And(0 <= i, i < n1 - 1), En[arr[i]] == S[arr[i + 1]]), patterns=[arr[i]])),
            ('self-split-unless-exact', z3.Implies(z3.And(inside, z3.Not(exact)), z3.Not(h.sel('_midway#none', s)))),
        ] + w.wf() + w.seeds_wf()

    def ensures(self, E, cx, a, r):
        if not isinstance(r, SymList):
            return [('returns-list', z3.BoolVal(False))]
        return self.post(a['$w'], a['$old'], a['self'].e, to_z3(a['ta']), to_z3(a['tb']), r) + \
            self.ghost_post_verify(a['$w'], a['$old'], a.get('$ghost0'), cx)

    def before_body(self, E, cx, a):
        a['$ghost0'] = self.ghost_begin(a['$w'])

    def apply(self, E, cx, a, lineno):
        w = cx.state['world']
        s, ta, tb = a['self'].e, num(E, cx, a['ta'], lineno), num(E, cx, a['tb'], lineno)
        for n, f in self.pre(w, s, ta, tb):
            cx.oblige(f'call-pre._loc.{n}@L{lineno}', f, 'call-pre', lineno)
        old = w.heap.snapshot()
        saved = self.ghost_begin(w)
        w.heap.havoc('hq')
        self.ghost_havoc(w, cx)
        lst = new_ref_list(cx, cx.fresh('L_len', Z), cx.fresh('L', z3.ArraySort(Z, Z)))
        items = self.post(w, old, s, ta, tb, lst) + self.ghost_post(w, old, saved, cx, True)
        for n, f in items:
            cx.assume(f)
        cx.state['last_loc'] = {'old': old, 'list': lst, 'ta': ta, 'tb': tb, 'post': dict(items)}
        return lst


class IncLevy(Contract):
    """_increment_and_levy_area(self): (W, H, A) of the node; W, H are the node's values val(n) (generic element),
    A is the node's Levy-area approximation (opaque here; its algebra is checked in the X domain)."""
    qualname = Q + '_increment_and_levy_area'

    def apply(self, E, cx, a, lineno):
        w = cx.state['world']
        n = a['self'].e
        cx.oblige(f'call-pre._increment_and_levy_area.allocated@L{lineno}', w.heap.alloc(n), 'call-pre', lineno)
        cx.state.setdefault('value_queries', []).append(n)
        H = SV(VH(n)) if cx.branch(SB(w.have_H), lineno) else None
        return (SV(VW(n)), H, None)


class CreateDepTree(TreeContract):
    """_create_dependency_tree(dt) as seen by __call__: only refines the tree (proved on its own body)."""
    qualname = QT + '_create_dependency_tree'

    def apply(self, E, cx, a, lineno):
        w = cx.state['world']
        old = w.heap.snapshot()
        saved = self.ghost_begin(w)
        w.heap.havoc('hd')
        self.ghost_havoc(w, cx)
        for n, f in [('refines', w.refines(old))] + w.wf() + w.seeds_wf() + self.ghost_post(w, old, saved, cx, True):
            cx.assume(f)
        w.extra['_tree_dt'] = SV(cx.fresh('tree_dt'))
        return None


class AggLoop(LoopSpec):
    """for interval in intervals[1:]  -- aggregation of W and H over the tiling.
    Obligations here are nonlinear; they are proved from the ground path facts plus explicit instances of the
    quantified facts delivered by _loc (forall-elimination at the current indices)."""
    modifies = ('Wi', 'Hi', 'Ai', 'term1', 'term2', 'H', 'A', 'W', 'size')

    def __init__(self, contract):
        self.c = contract

    def seq_len(self, E, cx, it):
        return SV(it.length())

    def seq_get(self, E, cx, it, i):
        return it.get(i)

    def havoc(self, E, cx, env, entry):
        out = {'W': SV(cx.fresh('W'))}
        if env.get('H') is not None:
            out['H'] = SV(cx.fresh('H'))
        return out

    def hints(self, cx, env, j):
        """instances of _loc's postcondition and of the heap invariants at tiling positions j and j+1"""
        w = cx.state['world']
        h = w.heap
        info = cx.state['last_loc']
        post = info['post']
        L = env['intervals']
        out = []
        for k in (j, j + 1):
            out += [inst(post['allocated'], k), inst(post['ghost.path'], L.arr[k]), inst(post['wf.nodes'], L.arr[k])]
        out.append(inst(post['contiguous'], j))
        out += [post['starts-at-round(ta)'], post['ends-at-round(tb)'], post['nonempty']]
        ref = post['refines']
        out += [ref.arg(0), inst(ref.arg(1), w.top), inst(post['wf.nodes'], w.top)]
        # rounding facts at the query start: forall-elimination of the T5 axioms at ta, and the grid-gap lemma for node L[0]
        ta = to_z3(env['ta'])
        for ax in w.round_axioms():
            if z3.is_quantifier(ax) and ax.num_vars() == 1:
                out.append(inst(ax, ta))
            elif z3.is_app(ax) and ax.decl().kind() == z3.Z3_OP_IMPLIES and z3.is_quantifier(ax.arg(1)) and ax.arg(1).num_vars() == 1:
                out.append(z3.Implies(ax.arg(0), inst(ax.arg(1), ta)))
            elif not z3.is_quantifier(ax) and not any(z3.is_quantifier(c) for c in ax.children()):
                out.append(ax)
        out.append(w.grid_gap(h.arr['_start'][L.arr[0]], h.arr['_end'][L.arr[0]]))
        return out

    def facts(self, cx, env, j, hint_at):
        w = cx.state['world']
        h = w.heap
        L = env['intervals']
        ta = to_z3(env['ta'])
        rta = ROUND(ta)
        e = h.arr['_end'][L.arr[j]]
        W = to_z3(env['W'])
        hints = self.hints(cx, env, hint_at)
        out = [{'name': 'e>ta', 'goal': e > ta, 'ground': True, 'hints': hints},
               {'name': 'W=Wc(e)-Wc(round(ta))', 'goal': W == w.Wc[e] - w.Wc[rta], 'ground': True, 'hints': hints}]
        if env.get('H') is not None:
            H = to_z3(env['H'])
            out.append({'name': 'U-relation(at resolved ta)', 'ground': True, 'hints': hints,
                        'goal': z3.Implies(rta == ta, (e - ta) * (W / 2 + H) == w.V[e] - w.V[ta] - (e - ta) * w.Wc[ta])})
        return out

    def inv(self, E, cx, env, entry):
        j = to_z3(env[self.index_name])
        L = env['intervals']
        hint_at = cx.state.get('agg_hint_index', j)
        return [('0<=j<len', z3.And(j >= 0, j < L.n))] + self.facts(cx, env, j, hint_at)

    def before_body(self, E, cx, env, entry):
        j = to_z3(env[self.index_name])
        cx.state['agg_hint_index'] = j
        hints = self.hints(cx, env, j)

        def hook(name, kind, lineno):
            if kind in ('no-raise', 'call-pre'):
                return (hints, True)
            return None
        cx.state['oblige_hook'] = hook


class Call(TreeContract):
    """BrownianInterval.__call__(ta, tb, return_U, return_A) on a generic element (W, H, U are element-wise)."""
    qualname = QT + '__call__'

    def __init__(self):
        self.ghost = True

    def harness(self, E, cx):
        w = self.world(E, cx)
        h = w.heap
        w.extra.update({
            '_dt': OptVal(cx.fresh('dt_none', B), SV(cx.fresh('dt'))),
            '_num_evaluations': SV(cx.fresh('num_evaluations', Z)), '_average_dt': SV(cx.fresh('average_dt')),
            '_tree_dt': SV(cx.fresh('tree_dt')), '_last_interval': node(cx.fresh('last', Z)),
            '_size': ZeroSize(), '_dtype': 'dtype', '_device': 'device', '_have_A': False,
        })
        E.loops[(self.qualname, 0)] = AggLoop(self)
        return {'self': w.topref, 'ta': cx.real('ta'), 'tb': cx.real('tb'),
                'return_U': SB(cx.fresh('return_U', B)), 'return_A': False, '$w': w, '$old': w.heap.snapshot()}

    def requires(self, E, cx, a):
        w = a['$w']
        h = w.heap
        return self.base_requires(w) + [
            ('last-allocated', h.alloc(w.extra['_last_interval'].e)),
            ('in-range', z3.And(h.sel('_start', w.top) <= a['ta'].e, a['tb'].e <= h.sel('_end', w.top), a['ta'].e <= a['tb'].e)),
            ('num_evaluations', w.extra['_num_evaluations'].e >= -100),
        ]

    def before_body(self, E, cx, a):
        a['$ghost0'] = self.ghost_begin(a['$w'])

    def may_raise(self, E, cx, a):
        return {'RuntimeError': a['ta'].e > a['tb'].e}

    def ensures(self, E, cx, a, r):
        w = a['$w']
        h = w.heap
        ta, tb = a['ta'].e, a['tb'].e
        S0, E0 = a['$old'].sel('_start', w.top), a['$old'].sel('_end', w.top)
        clip = lambda x: z3.If(x < S0, S0, z3.If(x > E0, E0, x))
        cta, ctb = clip(ta), clip(tb)
        if isinstance(r, tuple):
            Wv, Uv = r[0], r[1]
        else:
            Wv, Uv = r, None
        items = [('refines', w.refines(a['$old']))] + w.wf() + self.ghost_post_verify(w, a['$old'], a.get('$ghost0'), cx)
        inrange = z3.And(S0 <= ta, tb <= E0)
        hints = []
        info = cx.state.get('last_loc')
        if info is not None:
            post = info['post']
            L = info['list']
            hints = [post['starts-at-round(ta)'], post['ends-at-round(tb)'], post['nonempty'], inst(post['allocated'], 0),
                     inst(post['ghost.path'], L.arr[0]), inst(post['wf.nodes'], L.arr[0]),
                     inst(post['allocated'], L.n - 1), inst(post['ghost.path'], L.arr[L.n - 1])]
        resolved = z3.And(ROUND(ta) == ta, ROUND(tb) == tb)
        items.append({'name': 'W=Wc(round(tb))-Wc(round(ta))', 'ground': True,
                      'goal': z3.Implies(z3.And(inrange, ROUND(ta) < ROUND(tb), *hints), to_z3(Wv) == w.Wc[ROUND(tb)] - w.Wc[ROUND(ta)])})
        items.append(('zero-length=>W=0', z3.Implies(ROUND(cta) == ROUND(ctb), to_z3(Wv) == 0)))
        if Uv is not None:
            items.append({'name': 'U=V(tb)-V(ta)-(tb-ta)Wc(ta)', 'ground': True,
                          'goal': z3.Implies(z3.And(inrange, ta < tb, resolved, *hints), to_z3(Uv) == w.V[tb] - w.V[ta] - (tb - ta) * w.Wc[ta])})
            items.append(('zero-length=>U=0', z3.Implies(ROUND(cta) == ROUND(ctb), to_z3(Uv) == 0)))
        return items


class ZeroSize:
    """self._size for the generic-element model: torch.zeros(size, ...) is the element 0."""


def install_generic_element_torch(E):
    E.externs['torch'].attrs['zeros'] = I.ExternFunc('torch.zeros', lambda *a, **k: SV(z3.RealVal(0)))


# ----------------------------------------------------------------------------------------------
# _create_dependency_tree (after the fix: commits): explicit stack, rounded midpoint, strict-inside guard
# ----------------------------------------------------------------------------------------------
class DepTreeLoop(LoopSpec):
    modifies = ('interval', 'start', 'end', 'midway', 'stack')

    def __init__(self, contract):
        self.c = contract

    def havoc(self, E, cx, env, entry):
        w = cx.state['world']
        self.before = w.heap.snapshot()
        w.heap.havoc('ht')
        st = new_ref_list(cx, cx.fresh('stack_len', Z), cx.fresh('stack', z3.ArraySort(Z, Z)))
        return {'stack': st}

    def inv(self, E, cx, env, entry):
        w = cx.state['world']
        h = w.heap
        st = env['stack']
        if isinstance(st, list):
            arr = z3.K(Z, z3.IntVal(0))
            for k, x in enumerate(st):
                arr = z3.Store(arr, k, x.e)
            st = new_ref_list(cx, z3.IntVal(len(env['stack'])), arr)
            env['stack'] = st
        i = z3.Int('i_')
        return w.wf() + w.seeds_wf() + [
            ('refines-entry', w.refines(self.c.entry_heap)),
            ('stack-len>=0', st.n >= 0),
            ('stack-allocated', z3.ForAll([i], z3.Implies(z3.And(0 <= i, i < st.n), h.alloc(st.arr[i])), patterns=[st.arr[i]])),
            ('piece_length>0', to_z3(env['piece_length']) > 0),
        ]


class AnyCache:
    """Cache in an arbitrary state: `node in cache` is an unconstrained boolean (a bounded cache may have evicted any node)."""

    def __pyvc_contains__(self, engine, item, cx, lineno):
        return SB(cx.fresh('in_cache', B))

    def __pyvc_getitem__(self, engine, key, cx, lineno):
        raise Unsupported('value read from the arbitrary-state cache')

    def __pyvc_setitem__(self, engine, key, v, cx, lineno):
        pass


class CreateDepTreeBody(TreeContract):
    """Real body of _create_dependency_tree(dt): partial correctness -- no exception, tree only refined, WF kept,
    piece_length > 0 for every documented cache_size (termination of the refinement is argued in DESIGN, not proved)."""
    qualname = QT + '_create_dependency_tree'

    def harness(self, E, cx):
        w = self.world(E, cx)
        self.entry_heap = w.heap.snapshot()
        cs_none = cx.fresh('cache_size_none', B)
        w.extra.update({'_cache_size': OptVal(cs_none, SV(cx.fresh('cache_size', Z))), '_tree_dt': SV(cx.fresh('tree_dt'))})
        if w.cache is None:
            w.cache = AnyCache()       # the cache may hold any subset of the nodes: membership is an arbitrary boolean
        E.loops[(self.qualname, 0)] = DepTreeLoop(self)
        return {'self': w.topref, 'dt': cx.real('dt'), '$w': w, '$old': self.entry_heap}

    def requires(self, E, cx, a):
        w = a['$w']
        cs = w.extra['_cache_size']
        return self.base_requires(w) + [('dt>0', a['dt'].e > 0), ('tree_dt>0', w.extra['_tree_dt'].e > 0),
                                        ('cache_size>=0', z3.Or(cs.isnone, to_z3(cs.val) >= 0))]

    def ensures(self, E, cx, a, r):
        w = a['$w']
        return [('refines', w.refines(a['$old']))] + w.wf() + w.seeds_wf()
