"""C02 - each solver step matches the stochastic Taylor expansion of the declared SDE.

Scalar SDE (d = m = 1), generic in f, g (jets), in the base point and in (h, dW, U): proof [P].
d = m = 2 (diagonal / general / additive / scalar embeddings): dimension-bounded proof [D].
"""
from fractions import Fraction

from props.base import Job, T1, T3, T5, T6, T7
from props import sde_common as C
from pyvc.poly import Poly
from pyvc.values import Unsupported
from pyvc.interp import PyExc

LEVEL = 'proof'
TRUSTED = ['pyvc interpreter + torch element models + polynomial kernel (T6)', 'z3 5.1.0 (counterexample points)',
           'autograd axiomatised as formal differentiation (T3)', 'Gaussian moment table via Isserlis (T5)']
ASSUMPTIONS = [T1, T3, T5, T6, T7]
NOT_DECIDED = ['multi-dimensional terms are proved for d=m=2 only (dimension-bounded, listed under bounded_stand_ins)']
EXPLANATION = ('Every solver class is constructed by the real constructors and its real step() is executed on a generic '
               'smooth SDE represented by jets; the result is compared order by order in eps (dt=h eps^2, dW=w eps, '
               'U=u eps^3) with the Ito/Stratonovich-Taylor expansion generated from the operators L0, Lj.')

SOLVER_FILES = {
    'euler': ['torchsde._core.methods.euler.Euler.step'],
    'milstein': ['torchsde._core.methods.milstein.BaseMilstein.step', 'torchsde._core.methods.milstein.MilsteinIto.v_term',
                 'torchsde._core.methods.milstein.MilsteinStratonovich.v_term'],
    'srk': ['torchsde._core.methods.srk.SRK.diagonal_or_scalar_step', 'torchsde._core.methods.srk.SRK.additive_step'],
    'midpoint': ['torchsde._core.methods.midpoint.Midpoint.step'],
    'heun': ['torchsde._core.methods.heun.Heun.step'],
    'euler_heun': ['torchsde._core.methods.euler_heun.EulerHeun.step'],
    'log_ode': ['torchsde._core.methods.log_ode.LogODEMidpoint.step'],
    'reversible_heun': ['torchsde._core.methods.reversible_heun.ReversibleHeun.step',
                        'torchsde._core.methods.reversible_heun.ReversibleHeun.init_extra_solver_state'],
}
SDE_FUNCS = ['torchsde._core.base_sde.ForwardSDE.__init__', 'torchsde._core.base_sde.ForwardSDE.f_and_g_prod_default2',
             'torchsde._core.base_sde.ForwardSDE.g_prod_default', 'torchsde._core.base_sde.ForwardSDE.prod_diagonal',
             'torchsde._core.base_sde.ForwardSDE.prod_default', 'torchsde._core.base_sde.ForwardSDE.g_prod_and_gdg_prod_diagonal',
             'torchsde._core.base_sde.ForwardSDE.g_prod_and_gdg_prod_default',
             'torchsde._core.base_sde.ForwardSDE.g_prod_and_gdg_prod_additive',
             'torchsde._core.misc.vjp', 'torchsde._core.misc.batch_mvp']

SDE_TYPE_OF = {'euler': ['ito'], 'milstein': ['ito', 'stratonovich'], 'srk': ['ito'], 'midpoint': ['stratonovich'],
               'heun': ['stratonovich'], 'euler_heun': ['stratonovich'], 'log_ode': ['stratonovich'],
               'reversible_heun': ['stratonovich']}
NOISES = ['diagonal', 'scalar', 'additive', 'general']


def levy_for(method):
    return 'space-time' if method == 'srk' else ('davie' if method == 'log_ode' else 'none')


def configs(d=1):
    out = []
    for method, sts in SDE_TYPE_OF.items():
        for st in sts:
            for noise in NOISES:
                opts = [None]
                if method == 'milstein':
                    opts = [None, {'grad_free': True}]
                for o in opts:
                    out.append((method, st, noise, o))
    return out


def orders_ok(S, spec, y1, p, rep, tag, finding_prefix=None):
    """Generate the C02 obligations for advertised order p. Returns highest order for which they hold."""
    twop = int(2 * p)
    y1a = C.detach_arr(y1)
    for i in range(S.d):
        diff = y1a[spec.b, i] - S.base_y[spec.b, i]
        for k in range(0, twop + 1):
            sk = diff.coeff('eps', k)
            if k == 0:
                truth = Poly()
            else:
                truth = spec.exact_term(k, i)
                if truth is None:
                    # coefficient with non-expressible integral at an order that must match identically
                    rep.add(f'{tag}/post.taylor.eps{k}[{i}]', 'post', 'unknown', 'spec',
                            note='truth term not expressible in (h, dW, U)')
                    continue
            rep.poly_zero(f'{tag}/post.taylor.eps{k}[{i}]', sk - truth, 'post',
                          statement=f'[eps^{k}](y1-y0)_{i} == [eps^{k}] Taylor_{p}',
                          finding_key=(f'{finding_prefix}/taylor-order' if finding_prefix else None))
        k = twop + 1
        sk = diff.coeff('eps', k)
        em = C.scheme_mean(S, spec, sk)
        rep.poly_zero(f'{tag}/post.mean.eps{k}[{i}]', em - spec.mean_term(k, i), 'post',
                      statement=f'E[eps^{k}](y1-y0)_{i} == E[eps^{k}] Taylor  (mean local error O(h^{p + 1}))',
                      finding_key=(f'{finding_prefix}/mean-order' if finding_prefix else None))


def tag_of(method, st, noise, opts, d):
    cls = {'euler': 'Euler', 'milstein': 'MilsteinIto' if st == 'ito' else 'MilsteinStratonovich', 'srk': 'SRK',
           'midpoint': 'Midpoint', 'heun': 'Heun', 'euler_heun': 'EulerHeun', 'log_ode': 'LogODEMidpoint',
           'reversible_heun': 'ReversibleHeun'}[method]
    t = f'C02/{cls}.step' + ('[grad_free]' if opts else '')
    return t, f'{t}[{noise},d={d}]'


def make_job(method, st, noise, opts, d):
    finding, tag = tag_of(method, st, noise, opts, d)

    def fn(E, rep, tier):
        rep.under_contract(*SOLVER_FILES[method])
        rep.under_contract(*SDE_FUNCS)
        m = d if noise in ('diagonal', 'general') else (1 if noise == 'scalar' else d)
        try:
            S = C.setup(E, d=d, m=m, B=1, noise=noise, sde_type=st, N=5, levy=levy_for(method))
            solver, y1, extra1, p = C.run_step(S, method, options=opts)
        except PyExc as e:
            if e.cls == 'ValueError':
                # the library refuses this (method, noise) pair: nothing to prove (C19 decides admissibility)
                rep.add(f'{tag}/rejected', 'raises', 'discharged', 'pyvc-exec', note=f'constructor raised ValueError: {e.msg}')
                return
            raise
        C.queries_ok(S, rep, tag)
        spec = C.TaylorSpec(S, 0)
        orders_ok(S, spec, y1, Fraction(p), rep, tag, finding_prefix=finding)
        # one step is a function of (t, y, h, increments) only: the same step after a warm-up step of another length on the same
        # solver object gives the identical series (no state cached on the solver)
        _, y1w, _, _ = C.run_step(S, method, options=opts, warmup=True)
        a, b = C.detach_arr(y1), C.detach_arr(y1w)
        bad = None
        for i in range(S.d):
            diff = a[0, i] - b[0, i]
            if not diff.is_zero():
                bad = diff
                break
        rep.poly_zero(f'{tag}/post.depends-only-on-its-arguments', bad if bad is not None else Poly(),
                      statement='step(t, y, h, dW, U) after a previous step of a different length on the same solver == the step of a fresh solver')
        if d > 1:
            rep.bounded.append({'what': tag, 'bound': f'dimension-bounded: d={d}, m={m}, B=1; generic in f, g, base point, h, dW, U'})
    return Job(f'{method}-{st}-{noise}{"-gf" if opts else ""}-d{d}', fn)


def jobs(tier):
    out = []
    for (method, st, noise, opts) in configs():
        out.append(make_job(method, st, noise, opts, 1))
    return out


def holds_at(S, spec, y1, p):
    """Do the C02 conditions hold for order p? (pure; used by C01)"""
    twop = int(2 * p)
    y1a = C.detach_arr(y1)
    for i in range(S.d):
        diff = y1a[spec.b, i] - S.base_y[spec.b, i]
        for k in range(1, twop + 1):
            truth = spec.exact_term(k, i)
            if truth is None or not (diff.coeff('eps', k) - truth).is_zero():
                return False
        k = twop + 1
        try:
            mt = spec.mean_term(k, i)
        except NotImplementedError:
            return False
        if not (C.scheme_mean(S, spec, diff.coeff('eps', k)) - mt).is_zero():
            return False
    return True


def failure_sig(S, spec, y1, p):
    """Identifies how the C02 conditions fail at order p: hash of the non-zero residuals (used by C01 to tell a listed finding from a new one)."""
    import hashlib
    twop = int(2 * p)
    y1a = C.detach_arr(y1)
    parts = []
    for i in range(S.d):
        diff = y1a[spec.b, i] - S.base_y[spec.b, i]
        for k in range(1, twop + 1):
            truth = spec.exact_term(k, i)
            r = None if truth is None else diff.coeff('eps', k) - truth
            if r is None or not r.is_zero():
                parts.append((i, k, 'inexpressible' if r is None else repr(r.key())))
        k = twop + 1
        try:
            r = C.scheme_mean(S, spec, diff.coeff('eps', k)) - spec.mean_term(k, i)
            if not r.is_zero():
                parts.append((i, 'mean', repr(r.key())))
        except NotImplementedError:
            parts.append((i, 'mean', 'not-implemented'))
    return hashlib.md5(repr(parts).encode()).hexdigest()[:10]


def dim2_configs():
    out = []
    for (method, st, noise, opts) in configs():
        out.append((method, st, noise, opts))
    return out


def jobs(tier):  # noqa: F811
    out = []
    for (method, st, noise, opts) in configs():
        out.append(make_job(method, st, noise, opts, 1))
    for (method, st, noise, opts) in dim2_configs():
        out.append(make_job(method, st, noise, opts, 2))
    return out


_CANARIES = [
    ('srid2-beta2', 'srk-ito-diagonal-d1', ('torchsde._core.methods.tableaus.srid2', 'beta2 = (1, -4 / 3, 1 / 3, 0)', 'beta2 = (1, -4 / 3, 2 / 3, 0)')),
    ('srid2-A0', 'srk-ito-diagonal-d1', ('torchsde._core.methods.tableaus.srid2', '    (1 / 4, 1 / 4),\n    (0, 0, 0)\n', '    (1 / 4, 1 / 2),\n    (0, 0, 0)\n')),
    ('sra1-beta2-sign', 'srk-ito-additive-d2', ('torchsde._core.methods.tableaus.sra1', 'beta2 = (-1, 1)', 'beta2 = (1, -1)')),
    ('milstein-half', 'milstein-ito-diagonal-d1', ('torchsde._core.methods.milstein', 'I_k, 0.5 * v)', 'I_k, v)')),
    ('heun-weight', 'heun-stratonovich-diagonal-d2', ('torchsde._core.methods.heun', 'g_prod + g_prod_prime) * 0.5', 'g_prod + g_prod_prime) * 0.25')),
    ('midpoint-stage', 'midpoint-stratonovich-general-d2', ('torchsde._core.methods.midpoint', 'y_prime = y0 + half_dt * f + 0.5 * g_prod', 'y_prime = y0 + half_dt * f + g_prod')),
    ('euler-heun-prime', 'euler_heun-stratonovich-scalar-d1', ('torchsde._core.methods.euler_heun', 'g_prod_prime = self.sde.g_prod(t1, y_prime, I_k)', 'g_prod_prime = self.sde.g_prod(t1, y0, I_k)')),
    ('revheun-z', 'reversible_heun-stratonovich-diagonal-d1', ('torchsde._core.methods.reversible_heun', 'z1 = 2 * y0 - z0 + f0 * dt + self.sde.prod(g0, dW)', 'z1 = y0 + f0 * dt + self.sde.prod(g0, dW) * 0.5')),
]


def canaries(tier):
    sel = _CANARIES if tier == 'thorough' else _CANARIES[:5]
    return [{'name': n, 'job': j, 'patches': [p]} for n, j, p in sel]
