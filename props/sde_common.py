"""J-domain set-up shared by C01/C02 (and others): a generic smooth SDE given by jets, the
graded bookkeeping (dt = h eps^2, dW = w eps, U = u eps^3, sqrt(dt) = s eps, s^2 = h), and the
stochastic Taylor expansion generated from the differential operators of the declared SDE."""
import itertools
import re
from fractions import Fraction

import numpy as np

from pyvc import harness as H, jets, poly, tensor
from pyvc.interp import Ctx
from pyvc.poly import Poly, gaussian_expectation
from pyvc.tensor import XT

ALL_METHODS = ['euler', 'milstein', 'srk', 'midpoint', 'reversible_heun', 'heun', 'log_ode', 'euler_heun']


class JSetup:
    pass


def setup(E, d=1, m=1, B=1, noise='diagonal', sde_type='ito', N=4, levy='space-time', eta_limit=3, tdep=True):
    """Build a generic user SDE (jets), wrap it with the real ForwardSDE and create a Brownian stub."""
    tensor.reset_state()
    tensor.STATE['engine'] = E
    poly.configure(weights={'eps': ('eps', 1)}, limits={'eps': N, 'eta': eta_limit}, relations={'s': (2, {'h': 1}), 's2': (2, {'h2': 1})})
    S = JSetup()
    S.E = E
    S.cx = Ctx(E, [])
    S.d, S.m, S.B, S.noise, S.sde_type, S.N = d, m, B, noise, sde_type, N
    eps = Poly.var('eps')
    S.eps = eps
    S.h = Poly.var('h')
    S.s = Poly.var('s')
    S.t0 = Poly.var('t0')
    S.dt = S.h * eps * eps
    S.dt2 = Poly.var('h2') * eps * eps          # a second, unrelated step size (warm-up step of the history-independence obligation)
    tensor.STATE['sqrt_table'] = [(S.dt, S.s * eps), (S.dt2, Poly.var('s2') * eps)]
    S.base_y = H.sym_array('y0', (B, d))
    S.f = jets.JetFunction('f', d, (d,), S.t0, S.base_y, tdep=tdep)
    if noise == 'diagonal':
        if m != d:
            raise ValueError('diagonal noise needs m == d')
        S.g = jets.JetFunction('g', d, (d,), S.t0, S.base_y, elementwise=True, tdep=tdep)
    else:
        S.g = jets.JetFunction('g', d, (d, m), S.t0, S.base_y, tdep=tdep)
        if noise == 'additive':
            S.g.ydep = False
    S.user = H.make_user_sde(noise, sde_type, {'f': S.f, 'g': S.g})
    S.sde = H.forward_sde(E, S.cx, S.user)
    S.w = H.sym_array('w', (B, m))
    S.u = H.sym_array('u', (B, m))
    W = XT(np.vectorize(lambda x: x * eps, otypes=[object])(S.w))
    U = XT(np.vectorize(lambda x: x * eps ** 3, otypes=[object])(S.u))
    A = None
    if levy in ('davie', 'foster'):
        a = np.empty((B, m, m), dtype=object)
        for b in range(B):
            for i in range(m):
                for j in range(m):
                    if i == j:
                        a[b, i, j] = Poly()
                    elif i < j:
                        a[b, i, j] = Poly.var(f'a_{b}_{i}{j}') * eps ** 2
                    else:
                        a[b, i, j] = -Poly.var(f'a_{b}_{j}{i}') * eps ** 2
        A = XT(a)
    S.levy = levy
    S.W, S.U, S.A = W, U, A
    S.bm = H.BMStub((B, m), levy, lambda ta, tb: (W, U if levy != 'none' else None, A))
    S.y0 = XT(S.base_y)
    return S


def run_step(S, method, options=None, warmup=False):
    E, cx = S.E, S.cx
    solver = H.make_solver(E, cx, method, S.sde, S.bm, options=options)
    extra = E.call(E.get_attr(solver, 'init_extra_solver_state', cx, 0), [S.t0, S.y0], {}, cx, 0)
    if warmup:
        # a previous step of a different length on the same solver object must not influence the next one
        E.call(E.get_attr(solver, 'step', cx, 0), [S.t0, S.t0 + S.dt2, S.y0, extra], {}, cx, 0)
    del S.bm.queries[:]
    y1, extra1 = E.call(E.get_attr(solver, 'step', cx, 0), [S.t0, S.t0 + S.dt, S.y0, extra], {}, cx, 0)
    order = E.get_attr(solver, 'strong_order', cx, 0)
    return solver, y1, extra1, order


def queries_ok(S, rep, tag):
    """Obligation: every Brownian query of the step just executed is on exactly [t0, t0 + dt] (the increments W, U, A that enter the
    Taylor comparison are those of the step's own interval)."""
    t1 = S.t0 + S.dt
    bad = [q for q in S.bm.queries if not (Poly.lift(q[0]) - S.t0).is_zero() or not (Poly.lift(q[1]) - t1).is_zero()]
    ok = bool(S.bm.queries) and not bad
    rep.add(f'{tag}/post.increments-queried-on-[t0,t1]', 'post', 'discharged' if ok else 'refuted', 'poly-normal-form',
            model=None if ok else {'queries': [f'({q[0]!r}, {q[1]!r})' for q in (bad or S.bm.queries)][:3] or 'none'},
            statement='bm is queried on (t0, t1) only, and at least once')


def detach_arr(x):
    return np.vectorize(tensor.el_detach, otypes=[object])(x.a)


# ---------------------------------------------------------------------------------------------
# Stochastic Taylor expansion, generated from the operators of the declared SDE
# ---------------------------------------------------------------------------------------------
_JET = re.compile(r'^(f|g)\d+_r\d+_t\d+y\d+')


class TaylorSpec:
    """Truth expansion of X(t0+h)-X(t0) for row b of the generic SDE of a JSetup."""

    def __init__(self, S, b=0):
        self.S = S
        self.b = b
        d, m = S.d, S.m
        self.d, self.m = d, m
        zero = (0,) * d
        self.fsym = [Poly.var(S.f.sym((i,), b, (0,) + zero)) for i in range(d)]
        self.gsym = [[self._g(i, j, (0,) + zero) for j in range(m)] for i in range(d)]

    def _g(self, i, j, alpha):
        S = self.S
        if S.noise == 'diagonal':
            if i != j:
                return Poly()
            return Poly.var(S.g.sym((i,), self.b, alpha))
        return Poly.var(S.g.sym((i, j), self.b, alpha))

    # derivations on the algebra of jet symbols ------------------------------------------
    def _rule(self, which):
        S = self.S

        def rule(v):
            if not _JET.match(v):
                return None
            if which != 't':
                if v.startswith('g'):
                    if S.noise == 'additive':
                        return None
                    if S.noise == 'diagonal':
                        comp = int(v[1:v.index('_')][0])
                        if comp != which:
                            return None
            elif not getattr(S.f, 'tdep', True):
                return None
            return Poly.var(jets.shift_symbol(v, which, self.d))
        return rule

    def D(self, p, which):
        return p.derive(self._rule(which))

    def L0(self, p):
        out = self.D(p, 't')
        for k in range(self.d):
            dk = self.D(p, k)
            out = out + self.fsym[k] * dk
            if self.S.sde_type == 'ito':
                for l in range(self.d):
                    dkl = self.D(dk, l)
                    if dkl.is_zero():
                        continue
                    for j in range(self.m):
                        out = out + Fraction(1, 2) * self.gsym[k][j] * self.gsym[l][j] * dkl
        return out

    def Lj(self, p, j):
        out = Poly()
        for k in range(self.d):
            if self.gsym[k][j].is_zero():
                continue
            out = out + self.gsym[k][j] * self.D(p, k)
        return out

    def coeff(self, alpha, i):
        """c_alpha for component i: L^{a1} ... L^{a_{l-1}} b^{a_l}_i  (0 = drift, j>=1 = noise channel j-1)."""
        last = alpha[-1]
        p = self.fsym[i] if last == 0 else self.gsym[i][last - 1]
        for a in reversed(alpha[:-1]):
            p = self.L0(p) if a == 0 else self.Lj(p, a - 1)
        return p

    @staticmethod
    def order(alpha):
        return sum(2 if a == 0 else 1 for a in alpha)

    def integral(self, alpha):
        """Multiple integral I_alpha (Ito) / J_alpha (Stratonovich) as a polynomial in (h, w_j, u_j), or None when
        it is not a function of (h, dW, U)."""
        S = self.S
        ito = S.sde_type == 'ito'
        h = S.h
        w = lambda j: S.w[self.b, j - 1]
        u = lambda j: S.u[self.b, j - 1]
        if alpha == (0,):
            return h
        if alpha == (0, 0):
            return h * h * Fraction(1, 2)
        if len(alpha) == 1:
            return w(alpha[0])
        if len(set(alpha)) == 1 and alpha[0] != 0:
            j, n = alpha[0], len(alpha)
            x = w(j)
            if ito:  # Hermite polynomials H_n(x, h) / n!
                herm = [Poly.const(1), x]
                for k in range(2, n + 1):
                    herm.append(x * herm[k - 1] - (k - 1) * h * herm[k - 2])
                return herm[n] * Fraction(1, _fact(n))
            return x ** n * Fraction(1, _fact(n))
        if len(alpha) == 2 and alpha[1] == 0 and alpha[0] != 0:
            return u(alpha[0])
        if len(alpha) == 2 and alpha[0] == 0 and alpha[1] != 0:
            return h * w(alpha[1]) - u(alpha[1])
        return None

    def expectation_of_integral(self, alpha):
        """E[I_alpha]: Ito integrals with a stochastic index have mean zero; Stratonovich ones are
        converted through their Ito form for the index sets needed here (orders <= 2 and odd orders)."""
        S = self.S
        k = self.order(alpha)
        if all(a == 0 for a in alpha):
            return S.h ** len(alpha) * Fraction(1, _fact(len(alpha)))
        if S.sde_type == 'ito':
            return Poly()
        if k % 2 == 1:
            return Poly()  # odd in W: symmetric law
        if len(alpha) == 2 and alpha[0] != 0 and alpha[1] != 0:
            return S.h * Fraction(1, 2) if alpha[0] == alpha[1] else Poly()
        raise NotImplementedError(f'E[J_{alpha}]')

    def indices(self, k):
        out = []
        for n in range(1, k + 1):
            for alpha in itertools.product(range(self.m + 1), repeat=n):
                if self.order(alpha) == k:
                    out.append(alpha)
        return out

    def exact_term(self, k, i):
        """Order-k term of component i as polynomial, or None if some integral with a non-zero
        coefficient is not expressible in (h, dW, U)."""
        tot = Poly()
        for alpha in self.indices(k):
            c = self.coeff(alpha, i)
            if c.is_zero():
                continue
            I = self.integral(alpha)
            if I is None:
                return None
            tot = tot + c * I
        return tot

    def mean_term(self, k, i):
        tot = Poly()
        for alpha in self.indices(k):
            c = self.coeff(alpha, i)
            if c.is_zero():
                continue
            tot = tot + c * self.expectation_of_integral(alpha)
        return tot

    def cov(self):
        S = self.S
        cov = {}
        for b in range(S.B):
            for j in range(S.m):
                wv = list(S.w[b, j].vars())[0]
                uv = list(S.u[b, j].vars())[0]
                cov[(wv, wv)] = S.h
                cov[(wv, uv)] = S.h ** 2 * Fraction(1, 2)
                cov[(uv, uv)] = S.h ** 3 * Fraction(1, 3)
        return cov


def _fact(n):
    r = 1
    for k in range(2, n + 1):
        r *= k
    return r


def scheme_mean(S, spec, p):
    """Expectation of a scheme coefficient over (w, u) (Gaussian) and the Levy-area residual (mean zero,
    appears linearly at the orders used)."""
    avars = [v for v in p.vars() if v.startswith('a_')]
    for v in avars:
        if p.degree_in(v) > 1:
            raise NotImplementedError('Levy area appears non-linearly')
        p = p.coeff(v, 0)
    return gaussian_expectation(p, spec.cov())
