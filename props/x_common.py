"""Exact X-domain set-up (no h-expansion): explicit small tensors whose elements are polynomials over atoms; user functions
are DynJetFunctions (uninterpreted values + derivative atoms, row-wise); dt, dW, U, A are free symbols."""
from fractions import Fraction

import numpy as np

from pyvc import harness as H, jets, poly, tensor
from pyvc.interp import Ctx
from pyvc.poly import Poly
from pyvc.tensor import XT, el_detach

METHODS = ['euler', 'milstein', 'srk', 'midpoint', 'reversible_heun', 'heun', 'log_ode', 'euler_heun']
SDE_TYPE = {'euler': 'ito', 'milstein': 'ito', 'srk': 'ito', 'midpoint': 'stratonovich', 'heun': 'stratonovich',
            'euler_heun': 'stratonovich', 'log_ode': 'stratonovich', 'reversible_heun': 'stratonovich'}


def levy_for(method):
    return 'space-time' if method == 'srk' else ('davie' if method == 'log_ode' else 'none')


class XS:
    pass


def fresh_engine_state(E, eta_limit=2):
    tensor.reset_state()
    tensor.STATE['engine'] = E
    poly.configure(weights={}, limits={'eta': eta_limit}, relations={'sdt': (2, {'dt': 1})})
    tensor.STATE['sqrt_table'] = [(Poly.var('dt'), Poly.var('sdt'))]


def symt(prefix, shape):
    return XT(H.sym_array(prefix, shape))


def brownian(S, B, m, levy, prefix=''):
    dW = symt(prefix + 'dW', (B, m))
    U = symt(prefix + 'U', (B, m)) if levy != 'none' else None
    A = None
    if levy in ('davie', 'foster'):
        a = np.empty((B, m, m), dtype=object)
        for b in range(B):
            for i in range(m):
                for j in range(m):
                    a[b, i, j] = Poly() if i == j else (Poly.var(f'{prefix}A_{b}_{i}{j}') if i < j else -Poly.var(f'{prefix}A_{b}_{j}{i}'))
        A = XT(a)
    return dW, U, A


def setup(E, noise, sde_type, B=2, d=2, m=2, levy='none', eta_limit=2, fresh=True, per_row=True):
    if fresh:
        fresh_engine_state(E, eta_limit)
    S = XS()
    S.E, S.cx = E, Ctx(E, [])
    S.noise, S.sde_type, S.B, S.d, S.m, S.levy = noise, sde_type, B, d, m, levy
    gshape = (d,) if noise == 'diagonal' else (d, m)
    S.f = jets.DynJetFunction('F', d, (d,))
    S.g = jets.DynJetFunction('G', d, gshape, elementwise=(noise == 'diagonal'), ydep=(noise != 'additive'))
    S.g.per_row = per_row   # additive noise: independent of the state, but not necessarily the same for every batch row
    S.user = H.make_user_sde(noise, sde_type, {'f': S.f, 'g': S.g})
    S.sde = H.forward_sde(E, S.cx, S.user)
    S.t0, S.dt = Poly.var('t0'), Poly.var('dt')
    S.dW, S.U, S.A = brownian(S, B, m, levy)
    S.bm = H.BMStub((B, m), levy, lambda ta, tb: (S.dW, S.U, S.A))
    S.y0 = symt('y0', (B, d))
    return S


def run_step(S, method, sde=None, bm=None, y0=None, options=None, extra=None):
    E, cx = S.E, S.cx
    solver = H.make_solver(E, cx, method, sde or S.sde, bm or S.bm, options=options)
    y0 = y0 if y0 is not None else S.y0
    if extra is None:
        extra = E.call(E.get_attr(solver, 'init_extra_solver_state', cx, 0), [S.t0, y0], {}, cx, 0)
    y1, extra1 = E.call(E.get_attr(solver, 'step', cx, 0), [S.t0, S.t0 + S.dt, y0, extra], {}, cx, 0)
    return solver, y1, extra1


def det(x):
    return np.vectorize(el_detach, otypes=[object])(x.a if isinstance(x, XT) else x)


def arr_equal(a, b):
    a, b = det(a), det(b)
    if a.shape != b.shape:
        return False, f'shape {a.shape} vs {b.shape}'
    for idx in np.ndindex(*a.shape):
        d = Poly.lift(a[idx]) - Poly.lift(b[idx])
        if not d.is_zero():
            return False, f'element {idx}: residual {repr(d)[:200]}'
    return True, ''
