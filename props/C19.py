"""C19 - unsupported combinations and malformed inputs are rejected up-front.

Exhaustive over the finite product: the real check_contract -> methods.select -> <Solver>.__init__ -> BaseSDESolver.__init__
chain is executed for every cell; obligation per cell: ValueError before any integration  <=>  the cell is not in the
documented table (written below from DOCUMENTATION.md and settings.py).  Malformed-argument classes, default methods and
default Brownian motion, and the adjoint side (refusal when the backward pass starts) are separate obligation families."""
import itertools
from fractions import Fraction

import numpy as np

from props.base import Job, T6
from pyvc import harness as H, interp as I, tensor
from pyvc.interp import Ctx, PyExc
from pyvc.tensor import XT
from pyvc.values import Unsupported

LEVEL = 'proof'
TRUSTED = ['pyvc interpreter and torch shape-level models (T6)']
ASSUMPTIONS = [T6, 'the documented table is the specification (DOCUMENTATION.md "List of SDE solvers", "Levy area approximation", settings.py; '
               'log_ode is treated as documented: Stratonovich, Levy area davie/foster)']
NOT_DECIDED = []
EXPLANATION = __doc__
SDE_TYPES = ['ito', 'stratonovich']
NOISES = ['diagonal', 'scalar', 'additive', 'general']
METHODS = ['euler', 'milstein', 'srk', 'midpoint', 'reversible_heun', 'adjoint_reversible_heun', 'heun', 'log_ode', 'euler_heun']
LEVIES = ['none', 'space-time', 'davie', 'foster']
ITO = {'euler', 'milstein', 'srk'}
STRAT = {'euler_heun', 'heun', 'midpoint', 'milstein', 'reversible_heun', 'log_ode'}
DEFAULT = {('ito', 'diagonal'): 'srk', ('ito', 'additive'): 'srk', ('ito', 'scalar'): 'srk', ('ito', 'general'): 'euler'}
M_SDEINT = 'torchsde._core.sdeint'


def documented(sde_type, noise, method, levy):
    """The documented forward table."""
    if method not in (ITO if sde_type == 'ito' else STRAT):
        return False
    if method in ('milstein', 'srk') and noise == 'general':
        return False
    if method == 'srk' and levy not in ('space-time', 'davie', 'foster'):
        return False
    if method == 'log_ode' and levy not in ('davie', 'foster'):
        return False
    return True


def default_method(sde_type, noise):
    return DEFAULT[(sde_type, noise)] if sde_type == 'ito' else 'midpoint'


def default_levy(method):
    return 'space-time' if method == 'srk' else ('foster' if method == 'log_ode' else 'none')


class ShapeFn:
    """User method that returns a tensor of the shape its SDE declares (only shapes matter up-front)."""

    def __init__(self, kind, B, d, m, noise):
        self.kind, self.B, self.d, self.m, self.noise = kind, B, d, m, noise
        self.calls = 0

    def zeros(self, *shape):
        return XT(np.full(shape, Fraction(1), dtype=object))    # only shapes matter; ones keep divisions defined

    def g_shape(self):
        return (self.B, self.d) if self.noise == 'diagonal' else (self.B, self.d, self.m)

    def __pyvc_call__(self, engine, args, kwargs, cx, lineno):
        self.calls += 1
        if self.kind in ('f', 'h'):
            return self.zeros(self.B, self.d)
        if self.kind == 'g':
            return self.zeros(*self.g_shape())
        if self.kind == 'f_and_g':
            return (self.zeros(self.B, self.d), self.zeros(*self.g_shape()))
        if self.kind == 'g_prod':
            return self.zeros(self.B, self.d)
        if self.kind == 'f_and_g_prod':
            return (self.zeros(self.B, self.d), self.zeros(self.B, self.d))
        raise KeyError(self.kind)


class BMStub:
    def __init__(self, shape, levy):
        self.shape, self.levy = shape, levy
        self.queries = 0

    def __pyvc_getattr__(self, engine, name, cx, lineno):
        if name == 'shape':
            return tensor.TorchSize(self.shape)
        if name == 'levy_area_approximation':
            return self.levy
        raise PyExc('AttributeError', name, lineno)

    def __pyvc_call__(self, engine, args, kwargs, cx, lineno):
        self.queries += 1
        raise Unsupported('Brownian motion queried before integration was reached')


def prepare(E):
    """Models for the torch calls of check_contract and a capturing stand-in for the BrownianInterval constructor."""
    captured = []

    class CapturedBM(BMStub):
        pass

    def bi(**kw):
        captured.append(kw)
        size = tuple(kw['size'])
        return CapturedBM(size, kw.get('levy_area_approximation', 'none'))
    sd = E.module(M_SDEINT)
    sd.globals['BrownianInterval'] = I.ExternFunc('BrownianInterval', bi)
    tensor.STATE['pinverse'] = lambda x: XT(np.full((x.a.shape[0], x.a.shape[2], x.a.shape[1]), Fraction(1), dtype=object))
    E.externs['torch'].attrs['randn'] = I.ExternFunc('torch.randn', lambda *s, **k: XT(np.full(tuple(s), Fraction(0), dtype=object)))
    E.externs['torch'].attrs['allclose'] = I.ExternFunc('torch.allclose', lambda a, b, **k: all(x == y for x, y in zip(a.a.reshape(-1), b.a.reshape(-1))))
    XT.m_round = lambda self: self._new(np.vectorize(lambda x: Fraction(round(x)), otypes=[object])(self.a))
    return captured


class Reached(Exception):
    """Raised by the stand-in for BaseSDESolver.integrate: everything that runs before integration has run."""

    def __init__(self, solver, y0, ts, extra0):
        self.solver, self.y0, self.ts, self.extra0 = solver, y0, ts, extra0


class IntegrateStub:
    qualname = 'torchsde._core.base_solver.BaseSDESolver.integrate'

    def apply(self, E, cx, a, lineno):
        raise Reached(a['self'], a['y0'], a['ts'], a['extra0'])


def front_half(E, cx, sde, y0, ts, bm, method, adaptive=False, options=None, names=None, logqp=False, dt=Fraction(1, 10), entry='sdeint',
               extra_kwargs=None):
    """Run the real entry point (sdeint or sdeint_adjoint) up to the call of solver.integrate, which is intercepted.
    Returns ('ok', solver, (sde, y0, ts, bm, method)) when integration is reached, or ('raise', exc, None)."""
    E.contracts[IntegrateStub.qualname] = IntegrateStub()
    methods = E.module('torchsde._core.methods')
    real_select = methods.globals.get('$real_select') or methods.globals['select']
    methods.globals['$real_select'] = real_select
    chosen = []

    def select(**kw):
        chosen.append(kw.get('method'))
        return E.call(real_select, [], kw, cx, 0)
    methods.globals['select'] = I.ExternFunc('methods.select', select)
    if entry == 'sdeint':
        fn = E.module(M_SDEINT).globals['sdeint']
    else:
        fn = E.module('torchsde._core.adjoint').globals['sdeint_adjoint']
    kw = dict(bm=bm, method=method, dt=dt, adaptive=adaptive, rtol=Fraction(1, 1000), atol=Fraction(1, 2000), dt_min=Fraction(1, 10000),
              options=options, names=names, logqp=logqp)
    if entry != 'sdeint':
        kw['adjoint_params'] = ()
    kw.update(extra_kwargs or {})
    try:
        E.call(fn, [sde, y0, ts], kw, cx, 0)
    except Reached as r:
        sv = r.solver
        return ('ok', sv, (sv.fields.get('sde'), r.y0, r.ts, sv.fields.get('bm'), chosen[0] if chosen else None))
    except PyExc as e:
        return ('raise', e, None)
    finally:
        methods.globals['select'] = real_select
    return ('raise', PyExc('AssertionError', 'entry point returned without integrating', 0), None)


def user_sde(sde_type, noise, B, d, m, have=('f', 'g'), extra=None):
    meths = {k: ShapeFn(k, B, d, m, noise) for k in have}
    if extra:
        meths.update(extra)
    return H.make_user_sde(noise, sde_type, meths)


def ts_ok():
    return XT(np.array([Fraction(0), Fraction(1, 2), Fraction(1)], dtype=object))


def y0_ok(B, d):
    return XT(np.full((B, d), Fraction(1, 2), dtype=object))


def job_forward_matrix(E, rep, tier):
    rep.under_contract(M_SDEINT + '.check_contract', 'torchsde._core.methods.select', 'torchsde._core.base_solver.BaseSDESolver.__init__',
                       'torchsde._core.methods.euler.Euler.__init__', 'torchsde._core.methods.milstein.BaseMilstein.__init__',
                       'torchsde._core.methods.srk.SRK.__init__', 'torchsde._core.methods.log_ode.LogODEMidpoint.__init__',
                       'torchsde._core.methods.reversible_heun.AdjointReversibleHeun.__init__', 'torchsde._core.misc.assert_no_grad',
                       'torchsde._core.misc.is_strictly_increasing')
    captured = prepare(E)
    from props import adj_common as AC
    AC.install_function_apply(E)
    B, d = 2, 3
    cells = 0
    for entry, sde_type, noise, method, bm_levy, adaptive, logqp in itertools.product(('sdeint', 'sdeint_adjoint'), SDE_TYPES, NOISES, METHODS + [None], LEVIES + [None],
                                                                                     (False, True), (False, True)):
        m = d if noise == 'diagonal' else (1 if noise == 'scalar' else 2)
        cx = Ctx(E, [])
        have = ('f', 'g', 'h') if logqp else ('f', 'g')
        sde = user_sde(sde_type, noise, B, d, m, have)
        m_bm = (d + 1 if noise == 'diagonal' else m) if logqp else m
        bm = BMStub((B, m_bm), bm_levy) if bm_levy is not None else None
        del captured[:]
        out = front_half(E, cx, sde, y0_ok(B, d), ts_ok(), bm, method, adaptive=adaptive, logqp=logqp, entry=entry)
        eff_method = method if method is not None else default_method(sde_type, noise)
        eff_levy = bm_levy if bm_levy is not None else default_levy(eff_method)
        want_ok = documented(sde_type, noise, eff_method, eff_levy)
        tag = f'C19/forward{"" if entry == "sdeint" else "(sdeint_adjoint)"}[{sde_type},{noise},method={method},bm={bm_levy},adaptive={adaptive},logqp={logqp}]'
        cells += 1
        if out[0] == 'ok':
            ok = want_ok
            got = 'accepted'
        else:
            e = out[1]
            ok = (not want_ok) and e.cls == 'ValueError'
            got = f'{e.cls}: {str(e.msg)[:80]}'
        rep.add(tag + '/ValueError-iff-undocumented', 'raises', 'discharged' if ok else 'refuted', 'pyvc-exec',
                model=None if ok else {'documented': want_ok, 'outcome': got})
        if bm is not None and bm.queries:
            rep.add(tag + '/no-brownian-query-before-integration', 'frame', 'refuted', 'pyvc-exec')
        if out[0] == 'ok':
            sde2, y02, ts2, bm2, method2 = out[2]
            sv = out[1]
            given = {'dt': Fraction(1, 10), 'adaptive': adaptive, 'rtol': Fraction(1, 1000), 'atol': Fraction(1, 2000), 'dt_min': Fraction(1, 10000)}
            wrong = {k: str(sv.fields.get(k)) for k, v in given.items() if sv.fields.get(k) != v}
            if bm is not None and sv.fields.get('bm') is not bm:
                wrong['bm'] = 'not the Brownian motion that was passed'
            rep.add(tag + '/solver-constructed-with-the-given-dt-adaptive-rtol-atol-dt_min-bm', 'post', 'discharged' if not wrong else 'refuted', 'pyvc-exec',
                    model=None if not wrong else wrong)
            if method is None:
                ok = method2 == default_method(sde_type, noise)
                rep.add(tag + '/default-method', 'post', 'discharged' if ok else 'refuted', 'pyvc-exec', model=None if ok else {'got': method2})
            if bm_levy is None:
                kw = captured[-1] if captured else {}
                ok = (kw.get('levy_area_approximation') == default_levy(eff_method) and tuple(kw.get('size', ())) == (B, m_bm))
                t0v, t1v = kw.get('t0'), kw.get('t1')
                ok = ok and t0v is not None and t1v is not None and t0v.item() == 0 and t1v.item() == 1
                rep.add(tag + '/default-brownian(t0=ts[0],t1=ts[-1],size=(batch,noise),levy)', 'post', 'discharged' if ok else 'refuted', 'pyvc-exec',
                        model=None if ok else {k: str(v) for k, v in kw.items()})
    rep.notes.append(f'forward matrix: {cells} cells enumerated exhaustively')


def job_malformed(E, rep, tier):
    rep.under_contract(M_SDEINT + '.check_contract')
    prepare(E)
    B, d, m = 2, 3, 2

    from props import adj_common as AC
    AC.install_function_apply(E)

    def expect_value_error(name, only_entry=None, extra_kwargs=None, **kw):
        for entry in ('sdeint', 'sdeint_adjoint'):
            if only_entry and entry != only_entry:
                continue
            cx = Ctx(E, [])
            args = dict(sde=user_sde('ito', 'general', B, d, m), y0=y0_ok(B, d), ts=ts_ok(), bm=BMStub((B, m), 'none'), method='euler')
            args.update(kw)
            out = front_half(E, cx, args['sde'], args['y0'], args['ts'], args['bm'], args['method'], names=args.get('names'), dt=args.get('dt', Fraction(1, 10)),
                             entry=entry, extra_kwargs=extra_kwargs)
            ok = out[0] == 'raise' and out[1].cls == 'ValueError'
            rep.add(f'C19/malformed{"" if entry == "sdeint" else "(sdeint_adjoint)"}/{name}/raises.ValueError', 'raises', 'discharged' if ok else 'refuted', 'pyvc-exec',
                    model=None if ok else {'outcome': 'accepted' if out[0] == 'ok' else f'{out[1].cls}: {out[1].msg}'})
    T = lambda *v: XT(np.array([Fraction(x) for x in v], dtype=object))
    expect_value_error('ts-not-strictly-increasing(equal)', ts=T(0, Fraction(1, 2), Fraction(1, 2)))
    expect_value_error('ts-decreasing', ts=T(0, 1, Fraction(1, 2)))
    expect_value_error('ts-list-of-non-numbers', ts=['a', 'b'])
    expect_value_error('y0-1-dimensional', y0=XT(np.full((3,), Fraction(0), dtype=object)))
    expect_value_error('y0-3-dimensional', y0=XT(np.full((2, 3, 1), Fraction(0), dtype=object)))
    expect_value_error('y0-not-a-tensor', y0=[[0, 0, 0]])
    expect_value_error('bm-batch-mismatch', bm=BMStub((B + 1, m), 'none'))
    expect_value_error('bm-noise-mismatch', bm=BMStub((B, m + 1), 'none'))
    expect_value_error('bm-not-2d', bm=BMStub((B,), 'none'))
    expect_value_error('drift-state-size-mismatch', sde=user_sde('ito', 'general', B, d, m, extra={'f': ShapeFn('f', B, d + 1, m, 'general')}))
    expect_value_error('drift-batch-mismatch', sde=user_sde('ito', 'general', B, d, m, extra={'f': ShapeFn('f', B + 1, d, m, 'general')}))
    expect_value_error('diffusion-2d-for-general-noise', sde=user_sde('ito', 'general', B, d, m, extra={'g': ShapeFn('g', B, d, m, 'diagonal')}))
    expect_value_error('diffusion-3d-for-diagonal-noise', sde=user_sde('ito', 'diagonal', B, d, d, extra={'g': ShapeFn('g', B, d, m, 'general')}),
                       bm=BMStub((B, d), 'none'))
    expect_value_error('g_prod-shape-mismatch', sde=user_sde('ito', 'general', B, d, m, have=('f', 'g', 'g_prod'), extra={'g_prod': ShapeFn('g_prod', B, d + 1, m, 'general')}))
    expect_value_error('scalar-noise-with-two-channels', sde=user_sde('ito', 'scalar', B, d, 2), bm=BMStub((B, 2), 'none'))
    expect_value_error('no-drift', sde=user_sde('ito', 'general', B, d, m, have=('g',)))
    expect_value_error('no-drift(g_prod only)', sde=user_sde('ito', 'general', B, d, m, have=('g_prod',)))
    expect_value_error('no-drift(g and g_prod)', sde=user_sde('ito', 'general', B, d, m, have=('g', 'g_prod')))
    expect_value_error('no-diffusion', sde=user_sde('ito', 'general', B, d, m, have=('f',)))
    expect_value_error('g_prod-without-noise-size', sde=user_sde('ito', 'general', B, d, m, have=('f', 'g_prod')), bm=None)
    expect_value_error('unknown-method', method='rk4')
    expect_value_error('unknown-noise-type', sde=H.make_user_sde('colourful', 'ito', {'f': ShapeFn('f', B, d, m, 'general'), 'g': ShapeFn('g', B, d, m, 'general')}))
    expect_value_error('unknown-sde-type', sde=H.make_user_sde('general', 'ito-ish', {'f': ShapeFn('f', B, d, m, 'general'), 'g': ShapeFn('g', B, d, m, 'general')}))
    nt = I.ObjVal(H.user_class(), {'sde_type': 'ito', 'f': ShapeFn('f', B, d, m, 'general'), 'g': ShapeFn('g', B, d, m, 'general')})
    expect_value_error('missing-noise_type-attribute', sde=nt)
    tsg = ts_ok()
    tsg.rg = True
    expect_value_error('ts-requires-grad', ts=tsg)
    dtg = XT(np.array(Fraction(1, 10), dtype=object).reshape(()))
    dtg.rg = True
    expect_value_error('dt-requires-grad', dt=dtg)
    for nm in ('rtol', 'atol', 'dt_min'):
        tg = XT(np.array(Fraction(1, 1000), dtype=object).reshape(()))
        tg.rg = True
        expect_value_error(f'{nm}-requires-grad', extra_kwargs={nm: tg})
    for nm in ('adjoint_rtol', 'adjoint_atol'):
        tg = XT(np.array(Fraction(1, 1000), dtype=object).reshape(()))
        tg.rg = True
        expect_value_error(f'{nm}-requires-grad', only_entry='sdeint_adjoint', extra_kwargs={nm: tg})
    expect_value_error('adjoint_params-None-for-an-sde-that-is-not-an-nn.Module', only_entry='sdeint_adjoint', extra_kwargs={'adjoint_params': None})
    # positive controls: well-formed variants are accepted
    for name, kw in (('list-ts', dict(ts=[0, Fraction(1, 2), 1])), ('tuple-ts', dict(ts=(0, 1))), ('bm-None', dict(bm=None)),
                     ('names', dict(sde=H.make_user_sde('general', 'ito', {'foo': ShapeFn('f', B, d, m, 'general'), 'g': ShapeFn('g', B, d, m, 'general')}),
                                    names={'drift': 'foo'}))):
        cx = Ctx(E, [])
        args = dict(sde=user_sde('ito', 'general', B, d, m), y0=y0_ok(B, d), ts=ts_ok(), bm=BMStub((B, m), 'none'), method='euler')
        args.update(kw)
        out = front_half(E, cx, args['sde'], args['y0'], args['ts'], args['bm'], args['method'], names=args.get('names'))
        ok = out[0] == 'ok'
        rep.add(f'C19/wellformed/{name}/accepted', 'post', 'discharged' if ok else 'refuted', 'pyvc-exec',
                model=None if ok else {'raised': f'{out[1].cls}: {out[1].msg}'})
        if ok and name in ('list-ts', 'tuple-ts'):
            ts2 = out[2][2]
            okd = isinstance(ts2, XT) and ts2.dtype is args['y0'].dtype
            rep.add(f'C19/wellformed/{name}/ts-converted-to-tensor-of-y0-dtype', 'post', 'discharged' if okd else 'refuted', 'pyvc-exec')


def adjoint_documented(sde_type, noise, adjoint_method, forward_method):
    """Adjoint solvers the documentation admits (those working through f_and_g_prod / g_prod on the adjoint SDE)."""
    if adjoint_method == 'adjoint_reversible_heun':
        return sde_type == 'stratonovich' and forward_method == 'reversible_heun'
    if sde_type == 'ito':
        return adjoint_method == 'euler' or (adjoint_method == 'milstein' and noise == 'diagonal')
    return adjoint_method in ('midpoint', 'heun', 'euler_heun') or (adjoint_method == 'milstein' and noise == 'diagonal')


def job_adjoint_matrix(E, rep, tier):
    """The start of _SdeintAdjointMethod.backward for every (sde_type, noise, adjoint_method): the adjoint solver is either one the
    documentation admits, or its construction / initial state / first step raises -- nothing unsupported is integrated."""
    from props import adj_common as AC
    from pyvc.poly import Poly
    rep.under_contract('torchsde._core.adjoint._select_default_adjoint_method', 'torchsde._core.adjoint_sde.AdjointSDE.__init__',
                       'torchsde._core.methods.select')
    sel = E.module('torchsde._core.adjoint').globals['_select_default_adjoint_method']
    for sde_type, noise in itertools.product(SDE_TYPES, NOISES):
        for forward_method in ('reversible_heun', 'other'):
            if forward_method == 'reversible_heun' and sde_type == 'ito':
                continue
            B, d = 1, 2
            m = d if noise == 'diagonal' else (1 if noise == 'scalar' else 2)
            S = AC.setup(E, noise, sde_type, B, d, m, eta_limit=3)
            fm = 'reversible_heun' if forward_method == 'reversible_heun' else ('euler' if sde_type == 'ito' else 'midpoint')
            got = E.call(sel, [S.sde, fm, None], {}, S.cx, 0)
            want = 'adjoint_reversible_heun' if fm == 'reversible_heun' else (('milstein' if noise == 'diagonal' else 'euler') if sde_type == 'ito' else 'midpoint')
            rep.add(f'C19/adjoint-default[{sde_type},{noise},method={fm}]', 'post', 'discharged' if got == want else 'refuted', 'pyvc-exec',
                    model=None if got == want else {'got': got, 'want': want})
            # contract of _select_default_adjoint_method: an explicit choice is returned unchanged for every forward method, so the
            # solver constructed when the backward pass starts is the one the caller named (and is refused there if unsupported)
            for adjoint_method in METHODS + ['rk4']:
                got = E.call(sel, [S.sde, fm, adjoint_method], {}, S.cx, 0)
                rep.add(f'C19/adjoint-explicit-choice-is-used[{sde_type},{noise},method={fm},adjoint_method={adjoint_method}]', 'post',
                        'discharged' if got == adjoint_method else 'refuted', 'pyvc-exec', model=None if got == adjoint_method else {'got': got, 'want': adjoint_method})
            for adjoint_method in METHODS:
                for gf in ((False, True) if adjoint_method == 'milstein' else (False,)):
                    S = AC.setup(E, noise, sde_type, B, d, m, eta_limit=3)
                    cx = S.cx
                    tag = f'C19/adjoint[{sde_type},{noise},forward={fm},adjoint_method={adjoint_method}{",grad_free" if gf else ""}]'
                    ysym, asym = H.sym_array('y', (B, d)), H.sym_array('a', (B, d))
                    vals = [XT(ysym), XT(asym)]
                    extras = []
                    if fm == 'reversible_heun' and adjoint_method == 'adjoint_reversible_heun':
                        gsh = (B, d) if noise == 'diagonal' else (B, d, m)
                        vals += [XT(H.sym_array('af', (B, d))), XT(H.sym_array('ag', gsh)), XT(H.sym_array('az', (B, d)))]
                        extras = [XT(H.sym_array('f1', (B, d))), XT(H.sym_array('g1', gsh)), XT(H.sym_array('z1', (B, d)))]
                    vals += [XT(np.array(Poly.var('ap0'), dtype=object).reshape(()))]
                    shapes = [v.shape for v in vals]
                    outcome = 'integrated'
                    try:
                        acls = E.module('torchsde._core.adjoint_sde').globals['AdjointSDE']
                        adj = E.instantiate(acls, [S.sde, list(S.params), shapes], {}, cx, 0)
                        bmshape = (B, m)
                        dW = XT(H.sym_array('dW', bmshape))
                        bm = H.BMStub(bmshape, 'none', lambda ta, tb: (dW, None, None))
                        rcls = E.module('torchsde._brownian.derived').globals['ReverseBrownian']
                        rbm = E.instantiate(rcls, [bm], {}, cx, 0)
                        solver = H.make_solver(E, cx, adjoint_method, adj, rbm, options={'grad_free': True} if gf else {})
                        flatten = E.module('torchsde._core.misc').globals['flatten']
                        y_aug = XT(E.call(flatten, [vals], {}, cx, 0).m_unsqueeze(0).a)
                        t1 = Poly.var('tau')
                        gm = tensor.GradMode(False)
                        gm.__pyvc_enter__(cx)
                        try:
                            ex = tuple(extras) if extras else E.call(E.get_attr(solver, 'init_extra_solver_state', cx, 0), [t1, y_aug], {}, cx, 0)
                            E.call(E.get_attr(solver, 'step', cx, 0), [t1, t1 + Poly.var('dt'), y_aug, ex], {}, cx, 0)
                        finally:
                            gm.__pyvc_exit__(cx)
                    except PyExc as e:
                        outcome = e.cls
                    want_ok = adjoint_documented(sde_type, noise, adjoint_method, fm) and not gf
                    ok = (outcome == 'integrated') == want_ok
                    if not want_ok:
                        ok = outcome in ('ValueError', 'NotImplementedError', 'RuntimeError')
                    rep.add(tag + '/integrates-iff-admissible-else-explicit-error', 'raises', 'discharged' if ok else 'refuted', 'pyvc-exec',
                            model=None if ok else {'admissible': want_ok, 'outcome': outcome})


def jobs(tier):
    return [Job('forward-matrix', job_forward_matrix), Job('malformed', job_malformed), Job('adjoint-matrix', job_adjoint_matrix)]


def canaries(tier):
    S = 'torchsde._core.sdeint'
    return [
        {'name': 'g_prod-counts-as-drift', 'job': 'malformed',
         'patches': [(S, "    if hasattr(sde, 'g_prod'):\n        has_g = True\n", "    if hasattr(sde, 'g_prod'):\n        has_g = True\n        has_f = True\n")]},
        {'name': 'srk-accepts-any-levy', 'job': 'forward-matrix',
         'patches': [('torchsde._core.methods.srk', "    levy_area_approximations = (LEVY_AREA_APPROXIMATIONS.space_time,\n                                LEVY_AREA_APPROXIMATIONS.davie,\n                                LEVY_AREA_APPROXIMATIONS.foster)", "    levy_area_approximations = LEVY_AREA_APPROXIMATIONS.all()")]},
        {'name': 'ts-non-strict-accepted', 'job': 'malformed',
         'patches': [('torchsde._core.misc', "    return all(x < y for x, y in zip(ts[:-1], ts[1:]))", "    return all(x <= y for x, y in zip(ts[:-1], ts[1:]))")]},
        {'name': 'default-ito-general-is-srk', 'job': 'forward-matrix',
         'patches': [(S, "                NOISE_TYPES.general: METHODS.euler\n", "                NOISE_TYPES.general: METHODS.srk\n")]},
        {'name': 'adjoint_reversible_heun-accepted-as-forward-method', 'job': 'forward-matrix',
         'patches': [('torchsde._core.methods.reversible_heun', "        if not isinstance(sde, adjoint_sde.AdjointSDE):\n            raise ValueError(", "        if False:\n            raise ValueError(")]},
        {'name': 'explicit-adjoint-method-overridden-for-reversible-heun', 'job': 'adjoint-matrix',
         'patches': [('torchsde._core.adjoint', "    if adjoint_method is not None:\n        return adjoint_method\n    elif method == METHODS.reversible_heun:\n",
                      "    if method == METHODS.reversible_heun:\n        return METHODS.adjoint_reversible_heun\n    elif adjoint_method is not None:\n        return adjoint_method\n    elif False:\n")]},
        {'name': 'adjoint-default-ito-diagonal-is-euler', 'job': 'adjoint-matrix',
         'patches': [('torchsde._core.adjoint', "                NOISE_TYPES.diagonal: METHODS.milstein,\n", "                NOISE_TYPES.diagonal: METHODS.euler,\n")]},
    ]


def native_replay(ob):
    """Replay the failing cell natively (cell parsed from the obligation name)."""
    import re
    from props.base import run_native
    name = ob['name']
    m = re.match(r'C19/forward(?:\(sdeint_adjoint\))?\[(\w+),(\w+),method=(\w+),bm=([\w-]+),adaptive=(\w+),logqp=(\w+)\]', name)
    if m:
        st, noise, method, bm, ad, lq = m.groups()
        eff_m = method if method != 'None' else default_method(st, noise)
        eff_l = bm if bm != 'None' else default_levy(eff_m)
        return run_native('c19', dict(sde_type=st, noise=noise, method=method, bm=bm, adaptive=ad == 'True', logqp=lq == 'True',
                                      documented=documented(st, noise, eff_m, eff_l), entry='sdeint_adjoint' if '(sdeint_adjoint)' in name else 'sdeint'))
    m = re.match(r'C19/malformed(\(sdeint_adjoint\))?/(\w+)-requires-grad/', name)
    if m:
        return run_native('c19grad', {'entry': 'sdeint_adjoint' if m.group(1) else 'sdeint', 'which': m.group(2)})
    m = re.match(r'C19/adjoint-explicit-choice-is-used\[(\w+),(\w+),method=(\w+),adjoint_method=(\w+)\]', name)
    if m:
        st, noise, fm, am = m.groups()
        return run_native('c19adj', dict(sde_type=st, noise=noise, method=fm, adjoint_method=am, admissible=adjoint_documented(st, noise, am, fm)))
    m = re.match(r'C19/adjoint\[(\w+),(\w+),forward=(\w+),adjoint_method=(\w+?)(,grad_free)?\]', name)
    if m and not m.group(5):
        st, noise, fm, am = m.groups()[:4]
        return run_native('c19adj', dict(sde_type=st, noise=noise, method=fm, adjoint_method=am, admissible=adjoint_documented(st, noise, am, fm)))
    return None
