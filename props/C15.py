"""C15 - reversible Heun is algebraically reversible (A domain: all sizes, all noise types)."""
from fractions import Fraction

from props.base import Job, T1, T6, T7
from pyvc import harness as H, abstract as A, poly, tensor
from pyvc.abstract import AT, AFunction, atom
from pyvc.interp import Ctx
from pyvc.poly import Poly
from pyvc import interp as I

LEVEL = 'proof'
TRUSTED = ['pyvc interpreter and polynomial kernel (T6)']
ASSUMPTIONS = [T1, T6, T7, 'prod(g, v) is bilinear: element-wise product (diagonal) / batched matrix-vector product (other noise types)',
               '"up to rounding error ... for which the reverse recursion is numerically stable" is T1']
EXPLANATION = ('The real ReversibleHeun.step is executed on abstract tensors (polynomials over tensor atoms; f, g uninterpreted) from an '
               'arbitrary consistent carried state (y0, z0, f(t0,z0), g(t0,z0)); then the real step is executed again on the negated, '
               'time-reversed SDE through the real ReverseBrownian wrapper from (y1, (-f1,-g1,z1)); obligations: it returns exactly '
               '(y0, (-f0,-g0,z0)).  Valid for every batch/state/noise size.')
F_STEP = 'torchsde._core.methods.reversible_heun.ReversibleHeun.step'
F_INIT = 'torchsde._core.methods.reversible_heun.ReversibleHeun.init_extra_solver_state'
F_REV = 'torchsde._brownian.derived.ReverseBrownian.__call__'


class Neg:
    """(t, y) -> -phi(-t, y)  (the construction in the property)"""

    def __init__(self, phi):
        self.phi = phi

    def __pyvc_call__(self, engine, args, kwargs, cx, lineno):
        t, y = args
        return -self.phi.evaluate(-t if not isinstance(t, AT) else AT(-t.p, 'scal'), y)


def setup(E, noise):
    tensor.reset_state()
    poly.configure()
    A.KINDS.clear()
    A.install(E)
    cx = Ctx(E, [])
    gk = 'vec' if noise == 'diagonal' else 'mat'
    f = AFunction('F', 'vec')
    g = AFunction('G', gk)
    user = H.make_user_sde(noise, 'stratonovich', {'f': f, 'g': g})
    sde = H.forward_sde(E, cx, user)
    minus = H.make_user_sde(noise, 'stratonovich', {'f': Neg(f), 'g': Neg(g)})
    msde = H.forward_sde(E, cx, minus)
    t0 = AT(Poly.var('t0'), 'scal')
    dt = AT(Poly.var('dt'), 'scal')
    dW = atom('dW', 'vec')
    m = 1 if noise == 'scalar' else 3
    log = []

    def bmfn(ta, tb):
        log.append((ta, tb))
        return dW, None, None
    bm = H.BMStub((7, m), 'none', bmfn)
    return cx, f, g, sde, msde, t0, dt, dW, bm, log


def make_job(noise):
    def fn(E, rep, tier):
        rep.under_contract(F_STEP, F_INIT, F_REV, 'torchsde._core.base_sde.ForwardSDE.f_and_g_default',
                           'torchsde._core.base_sde.ForwardSDE.prod_diagonal', 'torchsde._core.base_sde.ForwardSDE.prod_default',
                           'torchsde._core.misc.batch_mvp')
        cx, f, g, sde, msde, t0, dt, dW, bm, log = setup(E, noise)
        tag = f'C15/ReversibleHeun[{noise}]'
        solver = H.make_solver(E, cx, 'reversible_heun', sde, bm)
        y0 = atom('y0', 'vec')
        z0 = atom('z0', 'vec')
        t1 = t0 + dt
        # invariant of the carried state, established by init_extra_solver_state and preserved by step
        init = E.call(E.get_attr(solver, 'init_extra_solver_state', cx, 0), [t0, y0], {}, cx, 0)
        ok = (len(init) == 3 and init[0] == f.evaluate(t0, y0) and init[1] == g.evaluate(t0, y0) and init[2] == y0)
        rep.add(f'{tag}/init.post.(f(t0,y0),g(t0,y0),y0)', 'post', 'discharged' if ok else 'refuted', 'poly-normal-form',
                statement='init_extra_solver_state(t0, y0) == (f(t0,y0), g(t0,y0), y0)')
        f0, g0 = f.evaluate(t0, z0), g.evaluate(t0, z0)
        y1, (f1, g1, z1) = E.call(E.get_attr(solver, 'step', cx, 0), [t0, t1, y0, (f0, g0, z0)], {}, cx, 0)
        for x in (y1, f1, g1, z1):
            A.check_linear(x)
        rep.poly_zero(f'{tag}/step.post.f1=f(t1,z1)', (f1 - f.evaluate(t1, z1)).p, statement='carried state stays consistent')
        rep.poly_zero(f'{tag}/step.post.g1=g(t1,z1)', (g1 - g.evaluate(t1, z1)).p)
        # reverse run: real ReverseBrownian wrapper around the same Brownian object
        rcls = E.module('torchsde._brownian.derived').globals['ReverseBrownian']
        rbm = E.instantiate(rcls, [bm], {}, cx, 0)
        rsolver = H.make_solver(E, cx, 'reversible_heun', msde, rbm)
        yb, (fb, gb, zb) = E.call(E.get_attr(rsolver, 'step', cx, 0), [-t1, -t0, y1, (-f1, -g1, z1)], {}, cx, 0)
        rep.poly_zero(f'{tag}/reverse.post.y=y0', (yb - y0).p, statement='reverse step reconstructs y0 exactly')
        rep.poly_zero(f'{tag}/reverse.post.z=z0', (zb - z0).p, statement='reverse step reconstructs z0 exactly')
        rep.poly_zero(f'{tag}/reverse.post.f=-f0', (fb + f0).p, statement='reverse step reconstructs -f(t0,z0)')
        rep.poly_zero(f'{tag}/reverse.post.g=-g0', (gb + g0).p, statement='reverse step reconstructs -g(t0,z0)')
        same = len(log) == 2 and repr(log[0]) == repr(log[1])
        rep.add(f'{tag}/reverse.same-brownian-query', 'post', 'discharged' if same else 'refuted', 'pyvc-exec',
                statement='the reverse step queries the base Brownian motion over the same interval (t0, t1)',
                model=None if same else {'queries': repr(log)})
    return Job(f'revheun-{noise}', fn)


def jobs(tier):
    # the reverse run is driven by ReverseBrownian(bm) (possibly of an already reversed motion): its contract is part of the argument
    from props import wrapper_jobs as WJ
    return [make_job(n) for n in ('diagonal', 'scalar', 'additive', 'general')] + [WJ.job_wrappers('C15')]


def canaries(tier):
    R = 'torchsde._core.methods.reversible_heun'
    return [
        {'name': 'reverse-of-reverse-unwrapped', 'job': 'wrappers',
         'patches': [('torchsde._brownian.derived', '        super(ReverseBrownian, self).__init__()\n        self.base_brownian = base_brownian\n',
                      '        super(ReverseBrownian, self).__init__()\n        self.base_brownian = base_brownian.base_brownian if isinstance(base_brownian, ReverseBrownian) else base_brownian\n')]},
        {'name': 'z-update-coefficient', 'job': 'revheun-general',
         'patches': [(R, 'z1 = 2 * y0 - z0 + f0 * dt + self.sde.prod(g0, dW)', 'z1 = 2 * y0 - z0 + f0 * dt + self.sde.prod(g0, dW) * 0.5')]},
        {'name': 'y-update-uses-f0-only', 'job': 'revheun-diagonal',
         'patches': [(R, 'y1 = y0 + (f0 + f1) * (0.5 * dt) + self.sde.prod(g0 + g1, 0.5 * dW)', 'y1 = y0 + (f0 + f0) * (0.5 * dt) + self.sde.prod(g0 + g1, 0.5 * dW)')]},
        {'name': 'reverse-bm-interval', 'job': 'revheun-scalar',
         'patches': [('torchsde._brownian.derived', 'out = self.base_brownian(-tb, -ta, return_U=return_U, return_A=return_A)', 'out = self.base_brownian(-ta, -tb, return_U=return_U, return_A=return_A)')]},
    ]


def native_replay(ob):
    from props.base import run_native
    return run_native('c15')
