"""C20 - batch rows are independent samples with no cross-talk (dimension-bounded, exact)."""
import numpy as np

from props.base import Job, T1, T3, T6, T7
from props import x_common as X
from props import C04
from pyvc import harness as H
from pyvc.interp import PyExc
from pyvc.poly import Poly
from pyvc.tensor import XT

LEVEL = 'proof'
TRUSTED = ['pyvc interpreter, torch element models, polynomial kernel (T6)']
ASSUMPTIONS = [T1, T3, T6, T7 + ' (row-wise action of f, g is the hypothesis of the property)']
NOT_DECIDED = ['dimension-bounded: B=2 (3 for the permutation obligation), d=2, m<=2; adaptive stepping is excluded by the property']
EXPLANATION = ('Row non-interference by self-composition: every real solver step() is executed on explicit tensors with B=2 twice, the second '
               'time with row 1 of y0, of the Brownian increment (and U, A) and of the carried state replaced by unrelated symbols; obligation: row 0 of '
               'the result is the identical polynomial.  Permutation equivariance: step(P x) = P step(x).  User functions act row-wise (uninterpreted, '
               'with derivative atoms for the solvers that differentiate g).  Brownian side: noise is drawn at the full sample shape (C04 obligations).')
CONFIGS = []
for m_ in X.METHODS:
    for n_ in ('diagonal', 'scalar', 'additive', 'general'):
        if m_ in ('milstein', 'srk') and n_ == 'general':
            continue
        CONFIGS.append((m_, n_, None))
CONFIGS.append(('milstein', 'diagonal', {'grad_free': True}))
CONFIGS.append(('milstein', 'scalar', {'grad_free': True}))


def swap_rows(x):
    if x is None:
        return None
    return XT(x.a[::-1].copy())


def replace_row1(x, prefix):
    if x is None:
        return None
    a = x.a.copy()
    it = np.ndindex(*a.shape[1:])
    for idx in it:
        if not (isinstance(a[(1,) + idx], Poly) and a[(1,) + idx].is_zero()):
            a[(1,) + idx] = Poly.var(prefix + ''.join(f'_{i}' for i in idx))
    if a.ndim == 3 and a.shape[1] == a.shape[2] and prefix.startswith('A'):
        for i in range(a.shape[1]):
            for j in range(a.shape[2]):
                a[1, i, j] = Poly() if i == j else (Poly.var(f'{prefix}_{i}{j}') if i < j else -Poly.var(f'{prefix}_{j}{i}'))
    return XT(a)


def make_job(method, noise, opts, stypes=None):
    def fn(E, rep, tier):
        B, d = 2, 2
        m = 1 if noise == 'scalar' else (2 if noise == 'diagonal' else 3)
        sts = ['ito', 'stratonovich'] if method == 'milstein' else [X.SDE_TYPE[method]]
        for st in sts:
            tag = f'C20/{method}[{st},{noise}{",grad_free" if opts else ""},B={B},d={d},m={m}]'
            rep.bounded.append({'what': tag, 'bound': f'dimension-bounded B={B}, d={d}, m={m}'})
            S = X.setup(E, noise, st, B, d, m, X.levy_for(method), eta_limit=2)
            try:
                solver, y1, ex1 = X.run_step(S, method, options=opts)
            except PyExc as e:
                if e.cls == 'ValueError':
                    continue
                raise
            extra0 = S.E.call(S.E.get_attr(solver, 'init_extra_solver_state', S.cx, 0), [S.t0, S.y0], {}, S.cx, 0)
            # (a) change row 1 of every input
            y0b = replace_row1(S.y0, 'yy')
            bm_b = H.BMStub((B, m), S.levy, lambda ta, tb: (replace_row1(S.dW, 'ww'), replace_row1(S.U, 'uu'), replace_row1(S.A, 'Aa')))
            _, y1b, _ = X.run_step(S, method, bm=bm_b, y0=y0b, options=opts)
            ok, why = X.arr_equal(XT(y1.a[0:1]), XT(y1b.a[0:1]))
            rep.add(f'{tag}/row0-unaffected-by-row1', 'post', 'discharged' if ok else 'refuted', 'poly-normal-form', model=None if ok else {'diff': why},
                    statement='changing row 1 of y0, dW, U, A leaves row 0 of y1 identical')
            # (a') the other direction: change row 0, row 1 must not move
            y0c = swap_rows(replace_row1(swap_rows(S.y0), 'yz'))
            bm_c = H.BMStub((B, m), S.levy, lambda ta, tb: tuple(None if v is None else swap_rows(replace_row1(swap_rows(v), nm))
                                                                  for v, nm in ((S.dW, 'wz'), (S.U, 'uz'), (S.A, 'Az'))))
            _, y1c, _ = X.run_step(S, method, bm=bm_c, y0=y0c, options=opts)
            ok, why = X.arr_equal(XT(y1.a[1:2]), XT(y1c.a[1:2]))
            rep.add(f'{tag}/row1-unaffected-by-row0', 'post', 'discharged' if ok else 'refuted', 'poly-normal-form', model=None if ok else {'diff': why},
                    statement='changing row 0 of y0, dW, U, A leaves row 1 of y1 identical')
            # (b) permutation equivariance -- for user functions that treat all rows alike (T7); a diffusion with a per-row value is
            # excluded here because it is not itself permutation invariant
            S = X.setup(E, noise, st, B, d, m, X.levy_for(method), eta_limit=2, per_row=False)
            solver, y1, ex1 = X.run_step(S, method, options=opts)
            bm_p = H.BMStub((B, m), S.levy, lambda ta, tb: (swap_rows(S.dW), swap_rows(S.U), swap_rows(S.A)))
            _, y1p, _ = X.run_step(S, method, bm=bm_p, y0=swap_rows(S.y0), options=opts)
            ok, why = X.arr_equal(swap_rows(y1), y1p)
            rep.add(f'{tag}/permutation-equivariant', 'post', 'discharged' if ok else 'refuted', 'poly-normal-form', model=None if ok else {'diff': why},
                    statement='step(P y0, P dW) == P step(y0, dW)')
    return Job(f'{method}-{noise}{"-gf" if opts else ""}', fn)


def job_logqp(E, rep, tier):
    """SDELogqp augmentation keeps rows separate (sum over the state dimension only)."""
    for noise in ('diagonal', 'general'):
        B, d, m = 2, 2, 2
        tag = f'C20/SDELogqp[{noise}]'
        rep.bounded.append({'what': tag, 'bound': f'dimension-bounded B={B}, d={d}, m={m}'})
        S = X.setup(E, noise, 'ito', B, d, m, 'none')
        from props.C18 import logqp_sde
        lq, _ = logqp_sde(E, S)
        yaug = XT(np.concatenate([S.y0.a, X.symt('l', (B, 1)).a], axis=1))
        f1 = E.call(E.get_attr(lq, 'f', S.cx, 0), [S.t0, yaug], {}, S.cx, 0)
        yb = replace_row1(S.y0, 'yy')
        f2 = E.call(E.get_attr(lq, 'f', S.cx, 0), [S.t0, XT(np.concatenate([yb.a, X.symt('l', (B, 1)).a], axis=1))], {}, S.cx, 0)
        ok, why = X.arr_equal(XT(f1.a[0:1]), XT(f2.a[0:1]))
        rep.add(f'{tag}/f.row0-unaffected-by-row1', 'post', 'discharged' if ok else 'refuted', 'poly-normal-form', model=None if ok else {'diff': why})


def jobs(tier):
    out = [make_job(m, n, o) for (m, n, o) in CONFIGS]
    out.append(Job('logqp', job_logqp))
    out.append(Job('noise-shape', C04.job_noise_shape))
    from props import C18
    out.append(Job('stable_division', C18.job_stable_division))      # element-wise: no row of the log-ratio drift depends on another row
    from props import agg_jobs as AJ
    out.append(AJ.job_aggregation('C20'))       # the Levy-area cross terms of a multi-node query are formed per batch element
    return out


def canaries(tier):
    return [
        {'name': 'batch-mean-in-drift-term', 'job': 'euler-diagonal',
         'patches': [('torchsde._core.methods.euler', '        y1 = y0 + f * dt + g_prod\n', '        y1 = y0 + f.mean(dim=0, keepdim=True) * dt + g_prod\n')]},
        {'name': 'levy-noise-broadcast-over-batch', 'job': 'noise-shape',
         'patches': [('torchsde._brownian.brownian_interval', 'size = (*self._top._size, *self._top._size[-1:])\n        return _randn', 'size = (*self._top._size[-2:], *self._top._size[-1:])\n        return _randn')]},
        {'name': 'logqp-sums-over-batch', 'job': 'logqp',
         'patches': [('torchsde._core.base_sde', "        u = misc.stable_division(f - h, g)\n        f_logqp = .5 * (u ** 2).sum(dim=1, keepdim=True)\n        return torch.cat([f, f_logqp], dim=1)\n\n    def g_diagonal", "        u = misc.stable_division(f - h, g)\n        f_logqp = .5 * (u ** 2).sum().reshape(1, 1).expand(y.size(0), 1) if False else .5 * (u ** 2).sum(dim=0, keepdim=True).sum(dim=1, keepdim=True) + 0 * (u ** 2).sum(dim=1, keepdim=True)\n        return torch.cat([f, f_logqp], dim=1)\n\n    def g_diagonal")]},
    ]


def native_replay(ob):
    from props.base import run_native
    return run_native('c20')
