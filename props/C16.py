"""C16 - equivalent SDE interfaces give identical solutions; derived operators are exact."""
from fractions import Fraction

import numpy as np

from props.base import Job, T1, T3, T6, T7
from props import x_common as X
from props import adj_common as AC
from pyvc import harness as H, jets, tensor, interp as I
from pyvc.interp import PyExc, Ctx
from pyvc.poly import Poly
from pyvc.tensor import XT, el_detach

LEVEL = 'proof'
TRUSTED = ['pyvc interpreter, torch element models, polynomial kernel (T6)', 'autograd as formal differentiation (T3)']
ASSUMPTIONS = [T1, T3, T6, T7, 'the user-supplied variants are the canonical compositions of the same (f, g) (the hypothesis of the property)']
NOT_DECIDED = ['dimension-bounded (B=2, d=2, m=2); bit-identity = identical term (T1/T2)']
EXPLANATION = ('(1) every supported combination of {f, g, f_and_g, g_prod, f_and_g_prod} (and renamed methods through RenameMethodsSDE) is wrapped by the '
               'real ForwardSDE and every real solver step is executed: the result is the identical polynomial as for the (f, g) interface, or an explicit '
               'RuntimeError from the *_default stubs -- never another value or exception; (2) the derived operators (g_prod, g dg v for diagonal / '
               'default / additive noise, both implementations of the Levy-area Jacobian term) equal their definitions computed by formal differentiation.')
BS = 'torchsde._core.base_sde'


def canonical_methods(S):
    """All interface methods describing the same (F, G), built from the uninterpreted F, G."""
    f, g = S.f, S.g
    diag = S.noise == 'diagonal'

    def prod(gv, v):
        if diag:
            return gv * v
        return tensor.t_bmm(gv, v.m_unsqueeze(-1)).m_squeeze(-1)

    class FG:
        def __pyvc_call__(self, engine, args, kwargs, cx, lineno):
            return (f.evaluate(args[0], args[1]), g.evaluate(args[0], args[1]))

    class GP:
        def __pyvc_call__(self, engine, args, kwargs, cx, lineno):
            return prod(g.evaluate(args[0], args[1]), args[2])

    class FGP:
        def __pyvc_call__(self, engine, args, kwargs, cx, lineno):
            return (f.evaluate(args[0], args[1]), prod(g.evaluate(args[0], args[1]), args[2]))
    return {'f': f, 'g': g, 'f_and_g': FG(), 'g_prod': GP(), 'f_and_g_prod': FGP()}


PATTERNS = {
    'f+g': ('f', 'g'), 'f_and_g': ('f_and_g',), 'f+g_prod': ('f', 'g_prod'), 'f_and_g_prod': ('f_and_g_prod',),
    'all': ('f', 'g', 'f_and_g', 'g_prod', 'f_and_g_prod'), 'f+g+g_prod': ('f', 'g', 'g_prod'), 'f_and_g+f_and_g_prod': ('f_and_g', 'f_and_g_prod'),
}
SOLVER_OPTS = [(m, None) for m in X.METHODS] + [('milstein', {'grad_free': True})]


def derivable(what, have):
    """The documented fall-back rules of ForwardSDE (comments in base_sde.py)."""
    have = set(have)
    if what == 'f':
        return 'f' in have
    if what == 'g':
        return 'g' in have
    if what == 'f_and_g':
        return 'f_and_g' in have or {'f', 'g'} <= have
    if what == 'g_prod':
        return 'g_prod' in have or 'g' in have
    if what == 'f_and_g_prod':
        return 'f_and_g_prod' in have or {'f', 'g_prod'} <= have or derivable('f_and_g', have)
    raise KeyError(what)


def needs(method, opts, noise):
    if method in ('euler', 'heun', 'midpoint'):
        return ['f_and_g_prod']
    if method == 'euler_heun':
        return ['f_and_g_prod', 'g_prod']
    if method == 'log_ode':
        return ['f_and_g_prod'] + (['g'] if noise == 'general' else [])
    if method == 'reversible_heun':
        return ['f_and_g']
    if method == 'srk':
        return ['f', 'g_prod'] + ([] if noise == 'additive' else ['g'])
    if method == 'milstein':
        if opts and noise != 'additive':
            return ['f_and_g', 'g']
        return ['f'] + (['g_prod'] if noise == 'additive' else ['g'])
    raise KeyError(method)


def make_job(noise):
    def fn(E, rep, tier):
        B, d, m = 2, 2, 2
        rep.under_contract(BS + '.ForwardSDE.__init__', BS + '.ForwardSDE.f_default', BS + '.ForwardSDE.g_default', BS + '.ForwardSDE.f_and_g_default',
                           BS + '.ForwardSDE.g_prod_default', BS + '.ForwardSDE.f_and_g_prod_default1', BS + '.ForwardSDE.f_and_g_prod_default2',
                           BS + '.RenameMethodsSDE.__init__')
        for (method, opts) in SOLVER_OPTS:
            sts = ['ito', 'stratonovich'] if method == 'milstein' else [X.SDE_TYPE[method]]
            for st in sts:
                S = X.setup(E, noise, st, B, d, m, X.levy_for(method))
                cm = canonical_methods(S)
                ref = None
                try:
                    _, ref, refx = X.run_step(S, method, options=opts)
                except PyExc as e:
                    if e.cls == 'ValueError':
                        continue     # (method, noise) not admitted: C19
                    raise
                for pname, keys in list(PATTERNS.items()) + [('renamed', None)]:
                    tag = f'C16/{method}{"[grad_free]" if opts else ""}[{st},{noise}]/{pname}'
                    if keys is None:
                        user0 = H.make_user_sde(noise, st, {'foo': cm['f'], 'bar': cm['g']})
                        cls = E.module(BS).globals['RenameMethodsSDE']
                        user = E.instantiate(cls, [user0], {'drift': 'foo', 'diffusion': 'bar'}, S.cx, 0)
                    else:
                        user = H.make_user_sde(noise, st, {k: cm[k] for k in keys})
                    sde = H.forward_sde(E, S.cx, user)
                    provided = keys if keys is not None else ('f', 'g')
                    supported = all(derivable(w, provided) for w in needs(method, opts, noise))
                    try:
                        _, y1, ex1 = X.run_step(S, method, sde=sde, options=opts)
                    except PyExc as e:
                        ok = e.cls == 'RuntimeError' and 'has not been provided' in str(e.msg) and not supported
                        rep.add(f'{tag}/' + ('explicit-error-when-a-needed-method-is-missing' if not supported else 'supported-combination-must-integrate'),
                                'raises', 'discharged' if ok else 'refuted', 'pyvc-exec', model=None if ok else {'raised': f'{e.cls}: {e.msg}', 'supported': supported})
                        continue
                    if not supported:
                        rep.add(f'{tag}/explicit-error-when-a-needed-method-is-missing', 'raises', 'refuted', 'pyvc-exec',
                                model={'note': 'integrated although a needed method is not derivable from the supplied ones'})
                        continue
                    ok, why = X.arr_equal(y1, ref)
                    rep.add(f'{tag}/same-solution-as-(f,g)', 'post', 'discharged' if ok else 'refuted', 'poly-normal-form', model=None if ok else {'diff': why})
        rep.bounded.append({'what': f'C16/interfaces[{noise}]', 'bound': f'dimension-bounded B={B}, d={d}, m={m}'})
    return Job(f'interfaces-{noise}', fn)


CANON = ('f', 'g', 'h', 'g_prod', 'f_and_g', 'f_and_g_prod')
KW = ('drift', 'diffusion', 'prior_drift', 'diffusion_prod', 'drift_and_diffusion', 'drift_and_diffusion_prod')


def job_rename_contract(E, rep, tier):
    """Contract of RenameMethodsSDE.__init__ (the `names` mechanism):  for every slot n with source name v,
         hasattr(sde, v)  ==>  self.n is sde.v          (simultaneous substitution: every source name is resolved on the user's object)
         not hasattr(sde, v)  ==>  self has no attribute n
    The source names range over a pool of representatives of every equivalence class the code can distinguish by comparing strings with each
    other, with the canonical names and with the attributes of the user's object: the 6 canonical names, 6 distinct other attribute names, and
    one name the object does not have.  Enumerated: every pair of slots with every pair of pool values (other slots default), and every
    permutation of the canonical names (swaps and cycles); thorough: also every triple of slots."""
    import itertools
    rep.under_contract(BS + '.RenameMethodsSDE.__init__')
    cx = Ctx(E, [])
    cls = E.module(BS).globals['RenameMethodsSDE']

    class Tok:
        def __init__(self, n):
            self.n = n

        def __repr__(self):
            return f'<user method {self.n}>'
    other = ('mu', 'sigma', 'nu', 'sig_prod', 'mu_sigma', 'mu_sigma_prod')
    pool = CANON + other + ('absent',)
    base_fields = {n: Tok(n) for n in CANON + other}
    bad, n_inst = [], 0

    def check(assign):
        nonlocal n_inst
        user = H.make_user_sde('diagonal', 'ito', dict(base_fields))
        kw = {KW[i]: v for i, v in assign.items()}
        obj = E.instantiate(cls, [user], kw, cx, 0)
        n_inst += 1
        for i, n in enumerate(CANON):
            v = assign.get(i, n)
            got = obj.fields.get(n)
            want = base_fields.get(v)
            if got is not want:
                bad.append({'names': {KW[j]: w for j, w in assign.items()}, 'slot': n, 'bound to': repr(got), 'should be': repr(want)})
    for i, j in itertools.combinations(range(6), 2):
        for vi in pool:
            for vj in pool:
                check({i: vi, j: vj})
    tag = 'C16/RenameMethodsSDE.__init__/post.every-slot-is-the-users-method-of-that-source-name'
    rep.add(tag + '[pairs-of-slots]', 'post', 'discharged' if not bad else 'refuted', 'pyvc-exec', model=None if not bad else bad[0],
            note=f'{n_inst} instantiations')
    bad2, bad = bad, []
    n0 = n_inst
    for perm in itertools.permutations(range(6)):
        check({i: CANON[perm[i]] for i in range(6)})
    rep.add(tag + '[permutations-of-canonical-names]', 'post', 'discharged' if not bad else 'refuted', 'pyvc-exec', model=None if not bad else bad[0],
            note=f'{n_inst - n0} instantiations')
    if tier == 'thorough':
        bad = []
        n0 = n_inst
        for tri in itertools.combinations(range(6), 3):
            for vals in itertools.product(pool, repeat=3):
                check(dict(zip(tri, vals)))
        rep.add(tag + '[triples-of-slots]', 'post', 'discharged' if not bad else 'refuted', 'pyvc-exec', model=None if not bad else bad[0],
                note=f'{n_inst - n0} instantiations')
    rep.bounded.append({'what': 'C16/RenameMethodsSDE.__init__', 'bound': 'source names from a pool of 13 representatives (6 canonical, 6 other, 1 absent); '
                        'pairs of slots x pairs of values, all 720 permutations of the canonical names' + (', triples of slots' if tier == 'thorough' else '')})


def job_operators(E, rep, tier):
    rep.under_contract(BS + '.ForwardSDE.g_prod_and_gdg_prod_default', BS + '.ForwardSDE.g_prod_and_gdg_prod_diagonal',
                       BS + '.ForwardSDE.g_prod_and_gdg_prod_additive', BS + '.ForwardSDE.dg_ga_jvp_column_sum_v1',
                       BS + '.ForwardSDE.dg_ga_jvp_column_sum_v2', BS + '.ForwardSDE.prod_default', BS + '.ForwardSDE.prod_diagonal',
                       'torchsde._core.misc.jvp', 'torchsde._core.misc.vjp', 'torchsde._core.misc.batch_mvp')
    B, d = 2, 2
    for noise, m in (('diagonal', 2), ('general', 3), ('scalar', 1), ('additive', 3)):      # d != m: no dimension coincidence
        for grad in (True, False):
            X.fresh_engine_state(E, eta_limit=3)
            cx = Ctx(E, [])
            f = jets.DynJetFunction('F', d, (d,))
            g = jets.DynJetFunction('G', d, (d,) if noise == 'diagonal' else (d, m), elementwise=(noise == 'diagonal'), ydep=(noise != 'additive'))
            g.per_row = True
            user = H.make_user_sde(noise, 'ito', {'f': f, 'g': g})
            t = Poly.var('t')
            y = X.symt('y', (B, d))
            v1, v2 = X.symt('v', (B, m)), X.symt('u', (B, m))
            yl = AC.leaf(y.a)             # oracle leaf
            gv = g.evaluate(t, yl).a
            if noise == 'diagonal':
                G3 = np.empty((B, d, m), dtype=object)
                for b in range(B):
                    for i in range(d):
                        for j in range(m):
                            G3[b, i, j] = gv[b, i] if i == j else Poly()
            else:
                G3 = gv
            dG = lambda b, i, j, k: Poly.lift(G3[b, i, j]).diff(yl.eta[b * d + k])
            want_gprod = np.empty((B, d), dtype=object)
            want_gdg = np.empty((B, d), dtype=object)
            for b in range(B):
                for i in range(d):
                    want_gprod[b, i] = sum((Poly.lift(G3[b, i, j]) * Poly.lift(v1.a[b, j]) for j in range(m)), Poly())
                    want_gdg[b, i] = sum((dG(b, i, j, k) * Poly.lift(G3[b, k, j]) * Poly.lift(v2.a[b, j]) for j in range(m) for k in range(d)), Poly())
            tag = f'C16/operators[{noise},grad={grad}]'
            rep.bounded.append({'what': tag, 'bound': f'dimension-bounded B={B}, d={d}, m={m}'})
            gm = tensor.GradMode(grad)
            gm.__pyvc_enter__(cx)
            try:
                sde = H.forward_sde(E, cx, user)
                got = E.call(E.get_attr(sde, 'g_prod', cx, 0), [t, y, v1], {}, cx, 0)
                ok, why = X.arr_equal(got, XT(want_gprod))
                rep.add(f'{tag}/g_prod=prod(g,v)', 'post', 'discharged' if ok else 'refuted', 'poly-normal-form', model=None if ok else {'diff': why})
                p1, p2 = E.call(E.get_attr(sde, 'g_prod_and_gdg_prod', cx, 0), [t, y, v1, v2], {}, cx, 0)
                ok, why = X.arr_equal(p1, XT(want_gprod))
                rep.add(f'{tag}/g_prod_and_gdg_prod.first=prod(g,v1)', 'post', 'discharged' if ok else 'refuted', 'poly-normal-form', model=None if ok else {'diff': why})
                if isinstance(p2, XT):
                    ok, why = X.arr_equal(p2, XT(want_gdg))
                else:
                    ok = all(Poly.lift(e).is_zero() for e in want_gdg.reshape(-1)) and p2 == 0
                    why = 'operator returned the scalar 0 but the definition is not identically zero'
                rep.add(f'{tag}/g_prod_and_gdg_prod.second=sum_jk(dg_ij/dy_k g_kj v2_j)', 'post', 'discharged' if ok else 'refuted', 'poly-normal-form',
                        model=None if ok else {'diff': why})
                if isinstance(p2, XT):
                    okg = (p2.rg == grad) or not grad
                    clean = grad or not any(tensor.el_has_eta(e) for e in p2.a.reshape(-1))
                    rep.add(f'{tag}/g_prod_and_gdg_prod.graph-iff-grad-enabled', 'post', 'discharged' if (okg and clean) else 'refuted', 'pyvc-exec')
                # Levy-area Jacobian term, both implementations, general noise only (others return 0)
                A = X.brownian(None, B, m, 'davie')[2]
                want_dgga = np.empty((B, d), dtype=object)
                for b in range(B):
                    for i in range(d):
                        want_dgga[b, i] = sum((dG(b, i, l, j) * Poly.lift(G3[b, j, k]) * Poly.lift(A.a[b, k, l])
                                               for j in range(d) for k in range(m) for l in range(m)), Poly())
                if noise == 'general':
                    for impl in ('dg_ga_jvp_column_sum_v1', 'dg_ga_jvp_column_sum_v2'):
                        r = E.call(E.get_attr(sde, impl, cx, 0), [t, y, A], {}, cx, 0)
                        ok, why = X.arr_equal(r, XT(want_dgga))
                        rep.add(f'{tag}/{impl}=sum_jkl(dg_il/dy_j g_jk A_kl)', 'post', 'discharged' if ok else 'refuted', 'poly-normal-form', model=None if ok else {'diff': why})
                    fast = H.forward_sde(E, cx, user, fast_dg_ga_jvp_column_sum=True)
                    isv2 = fast.fields['dg_ga_jvp_column_sum'].func.qualname.endswith('_v2')
                    rep.add(f'{tag}/fast-flag-selects-v2', 'post', 'discharged' if isv2 else 'refuted', 'pyvc-exec')
                else:
                    r = E.call(E.get_attr(sde, 'dg_ga_jvp_column_sum', cx, 0), [t, y, A], {}, cx, 0)
                    zero_def = all(Poly.lift(el_detach(e)).is_zero() for e in want_dgga.reshape(-1)) if noise != 'diagonal' or True else True
                    ok = (not isinstance(r, XT)) and r == 0 and zero_def
                    rep.add(f'{tag}/levy-term-is-zero-and-so-is-its-definition', 'post', 'discharged' if ok else 'refuted', 'poly-normal-form',
                            statement='for this noise type the operator returns 0, which is correct because the defining sum vanishes (antisymmetric A)')
            finally:
                gm.__pyvc_exit__(cx)


def jobs(tier):
    return [make_job('diagonal'), make_job('general'), make_job('scalar'), make_job('additive'), Job('operators', job_operators),
            Job('rename-contract', job_rename_contract)]


def canaries(tier):
    return [
        {'name': 'rename-applied-sequentially-instead-of-simultaneously', 'job': 'rename-contract',
         'patches': [(BS, "                setattr(self, name, getattr(sde, value))\n", "                setattr(self, name, getattr(self, value) if value in self.__dict__ else getattr(sde, value))\n")]},
        {'name': 'f_and_g_prod-default-ignores-user-g_prod', 'job': 'interfaces-general',
         'patches': [(BS, "        elif hasattr(sde, 'f') and hasattr(sde, 'g_prod'):\n            self.f_and_g_prod = self.f_and_g_prod_default1\n", "        elif hasattr(sde, 'f') and hasattr(sde, 'g_prod') and hasattr(sde, 'g'):\n            self.f_and_g_prod = self.f_and_g_prod_default1\n")]},
        {'name': 'gdg-default-single-jvp', 'job': 'operators',
         'patches': [(BS, "                    grad_inputs=g[..., col_idx] * v2[..., col_idx].unsqueeze(-1),", "                    grad_inputs=self.prod(g, v2),")]},
        {'name': 'dg_ga_v2-wrong-permute', 'job': 'operators',
         'patches': [(BS, "dg_ga_jvp = dg_ga_jvp.reshape(batch_size, m, d, m).permute(0, 2, 1, 3)", "dg_ga_jvp = dg_ga_jvp.reshape(batch_size, m, d, m)")]},
        {'name': 'rename-maps-diffusion-to-f', 'job': 'interfaces-diagonal',
         'patches': [(BS, "for name, value in zip(('f', 'g', 'h', 'g_prod', 'f_and_g', 'f_and_g_prod'),", "for name, value in zip(('g', 'f', 'h', 'g_prod', 'f_and_g', 'f_and_g_prod'),")]},
    ]


def native_replay(ob):
    from props.base import run_native
    if 'RenameMethodsSDE' in ob['name'] and isinstance(ob.get('model'), dict) and 'names' in ob['model']:
        return run_native('c16rename', {'names': ob['model']['names']})
    return run_native('c16')
