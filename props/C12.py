"""C12 - outputs lie on one dt-grid trajectory: interpolation and output-time invariance."""
import z3

from props.base import Job, T1, T6
from pyvc.contract import verify
from pyvc import interp as I
from contracts import integrate as CI
from contracts import integrate_loops as CL

LEVEL = 'proof'
TRUSTED = ['pyvc interpreter (T6)', 'z3 5.1.0', 'torch.stack modelled as list -> tensor with the same elements']
ASSUMPTIONS = [T1, T6, 'dt > 0 (dt <= 0 is not rejected by the library: outside the proved domain)',
               'step is a function of (t0, t1, y0, extra0): justified per solver by the C13 frame obligations']
NOT_DECIDED = ['dtype of the result under mixed ts/y0 dtypes (torch type promotion is not modelled)',
               'termination of the inner loop is reduced to the progress obligations next_t > curr_t and next_t = min(curr_t+dt, ts[-1]) (Archimedean argument is meta-level)']
EXPLANATION = ('integrate() is executed symbolically with step uninterpreted; loop invariants tie the carried state to the ghost '
               'grid G(k)=min(G(k-1)+dt, ts[-1]) and ghost trajectory S(k); the postcondition says every output is the linear '
               'interpolant of the two neighbouring grid states; output-time invariance is a lemma over that postcondition.')
F_INTEGRATE = 'torchsde._core.base_solver.BaseSDESolver.integrate'
F_INTERP = 'torchsde._core.interp.linear_interp'


def setup_engine(E):
    E.contracts[CI.StepContract.qualname] = CI.StepContract()
    E.contracts[CI.LinearInterpContract.qualname] = CI.LinearInterpContract()
    E.externs['torch'].attrs['stack'] = I.ExternFunc('torch.stack', CI.stack_model, needs_cx=True)


def job_interp(E, rep, tier):
    rep.under_contract(F_INTERP)
    rep.take(verify(E, CI.LinearInterpBody(), label='C12/linear_interp')['obligations'])
    rep.take(verify(E, CI.LinearInterpRejects(), label='C12/linear_interp[outside]')['obligations'])


def job_integrate(E, rep, tier):
    rep.under_contract(F_INTEGRATE)
    setup_engine(E)
    res = verify(E, CL.IntegrateFixed(), label='C12/integrate[fixed]')
    rep.take(res['obligations'])
    rep.notes.append(f"paths={res['paths']} covered={res['covered']}")


def job_lemmas(E, rep, tier):
    """Inductive lemmas about the ghost grid and the output-time-invariance lemma."""
    import time
    Z, R = z3.IntSort(), z3.RealSort()
    G = CL.G
    j, a, b = z3.Ints('j a b')
    dt, tsN, ts0, tau = z3.Reals('dt tsN ts0 tau')

    def prove(name, hyps, goal):
        t0 = time.time()
        s = z3.Solver()
        s.set('timeout', 30000)
        for h in hyps:
            s.add(h)
        s.add(z3.Not(goal))
        r = s.check()
        st = 'discharged' if r == z3.unsat else ('refuted' if r == z3.sat else 'unknown')
        rep.add('C12/lemma.' + name, 'lemma', st, 'z3-' + z3.get_version_string(), time.time() - t0,
                model=str(s.model()) if r == z3.sat else None, statement=str(goal))
    step = G(j + 1) == z3.If(tsN < G(j) + dt, tsN, G(j) + dt)
    prove('grid.bounded.base', [G(0) == ts0, ts0 <= tsN], G(0) <= tsN)
    prove('grid.bounded.step', [step, G(j) <= tsN], G(j + 1) <= tsN)
    prove('grid.monotone.step', [step, G(j) <= tsN, dt > 0], z3.And(G(j) <= G(j + 1), z3.Implies(G(j) < tsN, G(j) < G(j + 1))))
    prove('grid.closed-form.step', [step, G(j) == z3.If(tsN < ts0 + z3.ToReal(j) * dt, tsN, ts0 + z3.ToReal(j) * dt), dt > 0, j >= 0],
          G(j + 1) == z3.If(tsN < ts0 + z3.ToReal(j + 1) * dt, tsN, ts0 + z3.ToReal(j + 1) * dt))
    i1, i2 = z3.Ints('i1 i2')
    mono = z3.ForAll([i1, i2], z3.Implies(z3.And(0 <= i1, i1 <= i2), G(i1) <= G(i2)))
    prove('kappa.unique', [mono, a >= 1, b >= 1, G(a - 1) < tau, tau <= G(a), G(b - 1) < tau, tau <= G(b)], a == b)
    # output-time invariance: the value reported for a time tau is a function of (tau, G, SY) only
    kap1, kap2 = z3.Ints('kap1 kap2')
    v1 = CI.INTERP(G(kap1 - 1), CL.SY(kap1 - 1), G(kap1), CL.SY(kap1), tau)
    v2 = CI.INTERP(G(kap2 - 1), CL.SY(kap2 - 1), G(kap2), CL.SY(kap2), tau)
    prove('output-time-invariance', [mono, kap1 >= 1, kap2 >= 1, G(kap1 - 1) < tau, tau <= G(kap1),
                                     G(kap2 - 1) < tau, tau <= G(kap2)], v1 == v2)
    prove('output-at-grid-time-is-grid-state',
          [z3.ForAll([tau], CI.INTERP(G(kap1 - 1), CL.SY(kap1 - 1), G(kap1), CL.SY(kap1), G(kap1)) == CL.SY(kap1))],
          CI.INTERP(G(kap1 - 1), CL.SY(kap1 - 1), G(kap1), CL.SY(kap1), G(kap1)) == CL.SY(kap1))


def jobs(tier):
    return [Job('linear_interp', job_interp), Job('integrate-fixed', job_integrate), Job('lemmas', job_lemmas)]


def canaries(tier):
    return [
        {'name': 'interp-weights-swapped', 'job': 'linear_interp',
         'patches': [('torchsde._core.interp', 'y = (t1 - t) / (t1 - t0) * y0 + (t - t0) / (t1 - t0) * y1', 'y = (t - t0) / (t1 - t0) * y0 + (t1 - t) / (t1 - t0) * y1')]},
        {'name': 'no-clip-to-ts[-1]', 'job': 'integrate-fixed',
         'patches': [('torchsde._core.base_solver', 'next_t = min(curr_t + step_size, ts[-1])', 'next_t = curr_t + step_size')]},
        {'name': 'step-to-out_t', 'job': 'integrate-fixed',
         'patches': [('torchsde._core.base_solver', 'next_t = min(curr_t + step_size, ts[-1])', 'next_t = min(curr_t + step_size, out_t)')]},
        {'name': 'prev-not-updated', 'job': 'integrate-fixed',
         'patches': [('torchsde._core.base_solver', '                    prev_t, prev_y = curr_t, curr_y\n                    curr_y, curr_extra = self.step', '                    prev_y = curr_y\n                    curr_y, curr_extra = self.step')]},
    ]


def native_replay(ob):
    from props.base import run_native, model_floats
    if 'linear_interp' in ob['name'] and ob.get('model'):
        m = model_floats(ob['model'])
        args = {}
        for k in ('t0', 'y0', 't1', 'y1', 't'):
            cand = [v for n, v in m.items() if n.split('!')[0] == k]
            if not cand:
                return run_native('c12')
            args[k] = cand[0]
        r = run_native('linear_interp', args)
        if r.get('reproduced'):
            return r
    return run_native('c12')
