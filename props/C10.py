"""C10 - reversible Heun adjoint reproduces backprop gradients (exact over R).

(1) per step [D]: the real AdjointReversibleHeun.step, fed the forward step's outputs, reconstructs the
    forward step's inputs and returns exactly J^T * (incoming adjoints), J the Jacobian of the real forward
    ReversibleHeun.step obtained by differentiating its symbolic result (autograd model, T3);
(2) bounded end-to-end stand-in [B]: real _SdeintAdjointMethod.forward/backward on T output times against
    backprop through the real integrate(), generic in f, g, y0, parameters, loss weights and Brownian increments.
"""
from fractions import Fraction

import numpy as np

from props.base import Job, T1, T3, T6, T7
from props import adj_common as AC
from pyvc import harness as H, tensor, interp as I
from pyvc.poly import Poly
from pyvc.tensor import XT, TorchSize, GradMode

LEVEL = 'proof'
TRUSTED = ['pyvc interpreter, torch element models, polynomial kernel (T6)', 'autograd axiomatised as formal differentiation (T3)']
ASSUMPTIONS = [T1, T3, T6, T7, 'relative 1e-9 in float64 follows from exactness over R only under T1']
EXPLANATION = __doc__
SIZES = [(1, 1, 1), (2, 2, 2)]
F_ADJ = 'torchsde._core.methods.reversible_heun.AdjointReversibleHeun.step'
F_FWD = 'torchsde._core.methods.reversible_heun.ReversibleHeun.step'


def sym(prefix, shape):
    return XT(H.sym_array(prefix, shape))


def make_step_job(noise, B, d, m):
    def fn(E, rep, tier):
        rep.under_contract(F_ADJ, F_FWD, 'torchsde._core.adjoint_sde.AdjointSDE.get_state', 'torchsde._core.misc.flat_to_shape',
                           'torchsde._core.misc.flatten', 'torchsde._core.misc.vjp', 'torchsde._core.misc.seq_add',
                           'torchsde._core.adjoint_sde.AdjointSDE.__init__', 'torchsde._brownian.derived.ReverseBrownian.__call__')
        tag = f'C10/AdjointReversibleHeun.step[{noise},B={B},d={d},m={m}]'
        S = AC.setup(E, noise, 'stratonovich', B, d, m, eta_limit=1)
        cx = S.cx
        t0, dt = Poly.var('t0'), Poly.var('dt')
        t1 = t0 + dt
        dW = sym('dW', (B, m))
        bm = H.BMStub((B, m), 'none', lambda ta, tb: (dW, None, None))
        fwd = H.make_solver(E, cx, 'reversible_heun', S.sde, bm)
        # forward inputs as independent autograd leaves; f0, g0 carry the values f(t0,z0), g(t0,z0) (carried-state invariant)
        y0 = AC.leaf(H.sym_array('y0', (B, d)))
        z0 = AC.leaf(H.sym_array('z0', (B, d)))
        z0_plain = AC.detached(z0)
        with_grad = tensor.STATE['grad']
        f0v, g0v = S.f.evaluate(t0, z0_plain), S.g.evaluate(t0, z0_plain)
        f0, g0 = AC.leaf(f0v.a), AC.leaf(g0v.a)
        y1, (f1, g1, z1) = E.call(E.get_attr(fwd, 'step', cx, 0), [t0, t1, y0, (f0, g0, z0)], {}, cx, 0)
        a_y1, a_f1, a_g1, a_z1 = sym('ay', (B, d)), sym('af', (B, d)), sym('ag', g1.a.shape), sym('az', (B, d))
        a_th = [XT(np.array(Poly.var(f'ath{k}'), dtype=object).reshape(())) for k in range(len(S.params))]
        want = AC.grad_of(S, [y1, f1, g1, z1], [y0, f0, g0, z0] + S.params, [a_y1, a_f1, a_g1, a_z1])
        w_y0, w_f0, w_g0, w_z0 = want[:4]
        w_th = want[4:]
        # the real adjoint step, no grad (as inside autograd.Function.backward)
        acls = E.module('torchsde._core.adjoint_sde').globals['AdjointSDE']
        vals = [AC.detached(y1), a_y1, a_f1, a_g1, a_z1] + a_th
        shapes = [v.shape for v in vals]
        adj_sde = E.instantiate(acls, [S.sde, list(S.params), shapes], {}, cx, 0)
        rcls = E.module('torchsde._brownian.derived').globals['ReverseBrownian']
        rbm = E.instantiate(rcls, [bm], {}, cx, 0)
        adj = H.make_solver(E, cx, 'adjoint_reversible_heun', adj_sde, rbm)
        flatten = E.module('torchsde._core.misc').globals['flatten']
        y_aug = E.call(flatten, [vals], {}, cx, 0).m_unsqueeze(0)
        y_aug = XT(y_aug.a)
        gm = GradMode(False)
        gm.__pyvc_enter__(cx)
        del bm.queries[:]
        try:
            out_aug, (ff, gg, zz) = E.call(E.get_attr(adj, 'step', cx, 0),
                                           [-t1, -t0, y_aug, (AC.detached(f1), AC.detached(g1), AC.detached(z1))], {}, cx, 0)
        finally:
            gm.__pyvc_exit__(cx)
        # the adjoint step over [-t1, -t0] uses the reversed Brownian motion over exactly that interval: one base query on (t0, t1)
        qs = bm.queries
        okq = len(qs) == 1 and (Poly.lift(qs[0][0]) - t0).is_zero() and (Poly.lift(qs[0][1]) - t1).is_zero()
        rep.add(f'{tag}/frame.one-brownian-query-on-the-step-interval', 'frame', 'discharged' if okq else 'refuted', 'poly-normal-form',
                model=None if okq else {'base queries': [f'({q[0]!r}, {q[1]!r})' for q in qs][:3]})
        f2s = E.module('torchsde._core.misc').globals['flat_to_shape']
        parts = E.call(f2s, [out_aug.m_squeeze(0), shapes], {}, cx, 0)
        r_y, r_ay, r_af, r_ag, r_az = parts[:5]
        r_th = parts[5:]
        AC.arr_eq_obligations(rep, f'{tag}/post.reconstruct.y0', r_y, y0, 'forward_y1 == y0 of the forward step')
        AC.arr_eq_obligations(rep, f'{tag}/post.reconstruct.z0', zz, z0, 'forward_z1 == z0')
        AC.arr_eq_obligations(rep, f'{tag}/post.reconstruct.f0', ff, f0v, 'forward_f1 == f(t0, z0)')
        AC.arr_eq_obligations(rep, f'{tag}/post.reconstruct.g0', gg, g0v, 'forward_g1 == g(t0, z0)')
        AC.arr_eq_obligations(rep, f'{tag}/post.adj_y', r_ay, w_y0, 'adj_y == (dPhi/dy0)^T adj_out')
        AC.arr_eq_obligations(rep, f'{tag}/post.adj_f', r_af, w_f0, 'adj_f == (dPhi/df0)^T adj_out')
        AC.arr_eq_obligations(rep, f'{tag}/post.adj_g', r_ag, w_g0, 'adj_g == (dPhi/dg0)^T adj_out')
        AC.arr_eq_obligations(rep, f'{tag}/post.adj_z', r_az, w_z0, 'adj_z == (dPhi/dz0)^T adj_out')
        for k, (r, w, a0) in enumerate(zip(r_th, w_th, a_th)):
            AC.arr_eq_obligations(rep, f'{tag}/post.adj_param{k}', r, a0 + w, 'adj_theta == incoming + (dPhi/dtheta)^T adj_out')
        nograph = not any(tensor.el_has_eta(e) for e in out_aug.a.reshape(-1)) and not out_aug.rg
        rep.add(f'{tag}/post.no-graph-when-grad-disabled', 'post', 'discharged' if nograph else 'refuted', 'pyvc-exec')
        rep.bounded.append({'what': tag, 'bound': f'dimension-bounded B={B}, d={d}, m={m}; generic in f, g, all real inputs'})
    return Job(f'step-{noise}-B{B}d{d}m{m}', fn)


def jobs(tier):
    out = []
    for noise in ('diagonal', 'scalar', 'additive', 'general'):
        for (B, d, m) in SIZES:
            mm = d if noise == 'diagonal' else (1 if noise == 'scalar' else m)
            out.append(make_step_job(noise, B, d, mm))
    return out


def canaries(tier):
    R = 'torchsde._core.methods.reversible_heun'
    return [
        {'name': 'adj_f1-missing-dt', 'job': 'step-diagonal-B1d1m1', 'patches': [(R, 'adj_f1 = adj_f1 + adj_z0 * dt', 'adj_f1 = adj_f1 + adj_z0')]},
        {'name': 'adj_z1-sign', 'job': 'step-general-B2d2m2', 'patches': [(R, 'adj_z1 = -adj_z0', 'adj_z1 = adj_z0')]},
        {'name': 'adj_y1-factor', 'job': 'step-scalar-B2d2m1', 'patches': [(R, 'adj_y1 = adj_y1 + 2 * adj_z0', 'adj_y1 = adj_y1 + adj_z0')]},
        {'name': 'reconstruct-sign', 'job': 'step-additive-B1d1m1',
         'patches': [(R, 'forward_z1 = 2 * forward_y0 - forward_z0 - forward_f0 * dt - self.forward_sde.prod(forward_g0, dW)',
                      'forward_z1 = 2 * forward_y0 - forward_z0 - forward_f0 * dt + self.forward_sde.prod(forward_g0, dW)')]},
    ]


# ---------------------------------------------------------------------------------------------
# bounded end-to-end stand-in [B]
# ---------------------------------------------------------------------------------------------
def run_adjoint_backward(E, S, solver, bm, method, adjoint_method, ts, dt, y0, extras, weights, adjoint_options=None):
    """Real _SdeintAdjointMethod.forward + backward. Returns (ys, extras_out, grads tuple after the 13 non-tensor slots)."""
    cx = S.cx
    AC.install_function_apply(E)
    cls = E.module('torchsde._core.adjoint').globals['_SdeintAdjointMethod']
    apply = E.get_attr(cls, 'apply', cx, 0)
    args = [S.sde, ts, dt, bm, solver, method, adjoint_method, False, Fraction(1, 100000), Fraction(1, 10000), Fraction(1, 100000),
            dict(adjoint_options or {}), len(extras), y0] + list(extras) + list(S.params)
    out = E.call(apply, args, {}, cx, 0)
    ctx = E.last_fn_ctx
    ys, extras_out = out[0], list(out[1:])
    bwd = cls.attrs['backward']
    bwd = bwd.func if isinstance(bwd, I.StaticVal) else bwd
    grad_extras = [XT(np.full(e.a.shape, Fraction(0), dtype=object)) for e in extras_out]
    gm = GradMode(False)
    gm.__pyvc_enter__(cx)
    try:
        res = E.call(bwd, [ctx, weights] + grad_extras, {}, cx, 0)
    finally:
        gm.__pyvc_exit__(cx)
    return ys, extras_out, res


def make_e2e_job(noise, pattern):
    def fn(E, rep, tier):
        rep.under_contract('torchsde._core.adjoint._SdeintAdjointMethod.forward', 'torchsde._core.adjoint._SdeintAdjointMethod.backward',
                           'torchsde._core.base_solver.BaseSDESolver.integrate', F_ADJ, F_FWD)
        B, d = 1, 1
        m = 1
        tag = f'C10/e2e[{noise},weights={pattern}]'
        rep.bounded_mode = 'T=3 output times, 4 fixed steps, B=d=m=1; generic in f, g, y0, theta, loss weights, Brownian increments'
        S = AC.setup(E, noise, 'stratonovich', B, d, m, eta_limit=1)
        cx = S.cx
        pbm = AC.PathBM((B, m))
        bm = pbm.stub()
        ts = AC.ts_tensor([0, Fraction(1, 2), 1])
        dt = Fraction(1, 4)
        T = 3
        solver = H.make_solver(E, cx, 'reversible_heun', S.sde, bm, dt=dt)
        y0 = AC.leaf(H.sym_array('y0', (B, d)))
        extras_v = E.call(E.get_attr(solver, 'init_extra_solver_state', cx, 0), [ts.a[0], AC.detached(y0)], {}, cx, 0)
        extras = [AC.leaf(e.a) for e in extras_v]
        # weights (incoming gradient of the loss w.r.t. ys)
        w = np.empty((T, B, d), dtype=object)
        for i in range(T):
            for idx in np.ndindex(B, d):
                zero = (pattern == 'last-zero' and i == T - 1) or (pattern == 'middle-only' and i != 1)
                w[(i,) + idx] = Fraction(0) if zero else Poly.var(f'w{i}' + ''.join(f'_{j}' for j in idx))
        weights = XT(w)
        # reference: backprop through the real integrate()
        ys_ref, extra_ref = E.call(E.get_attr(solver, 'integrate', cx, 0), [y0, ts, tuple(extras)], {}, cx, 0)
        want = AC.grad_of(S, [ys_ref], [y0] + extras + S.params, [weights])
        # adjoint
        ys, extras_out, res = run_adjoint_backward(E, S, solver, bm, 'reversible_heun', 'adjoint_reversible_heun', ts, dt,
                                                   AC.detached(y0), [AC.detached(e) for e in extras], weights)
        AC.arr_eq_obligations(rep, f'{tag}/forward-values', ys, ys_ref, 'sdeint_adjoint forward values == integrate()')
        none13 = all(r is None for r in res[:13])
        rep.add(f'{tag}/backward.13-non-tensor-slots-None', 'post', 'discharged' if none13 else 'refuted', 'pyvc-exec')
        grads = list(res[13:])
        names = ['y0', 'f0', 'g0', 'z0'] + [f'theta{k}' for k in range(len(S.params))]
        ok_len = len(grads) == len(names)
        rep.add(f'{tag}/backward.one-gradient-per-input', 'post', 'discharged' if ok_len else 'refuted', 'pyvc-exec')
        if ok_len:
            for nm, g_, w_ in zip(names, grads, want):
                if g_ is None:
                    rep.add(f'{tag}/grad.{nm}', 'post', 'refuted', 'pyvc-exec', model={'got': 'None'})
                    continue
                AC.arr_eq_obligations(rep, f'{tag}/grad.{nm}', g_, w_, f'adjoint gradient w.r.t. {nm} == backprop gradient')
    return Job(f'e2e-{noise}-{pattern}', fn)


_step_jobs = jobs


def jobs(tier):  # noqa: F811
    out = _step_jobs(tier)
    for noise in ('diagonal', 'general'):
        for pattern in ('all', 'last-zero', 'middle-only'):
            out.append(make_e2e_job(noise, pattern))
    return out


def native_replay(ob):
    from props.base import run_native
    return run_native('c10')
