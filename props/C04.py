"""C04 - Brownian samples have exactly the law of Brownian motion.

The outputs are linear images of i.i.d. N(0,1) arrays (T4), hence Gaussian, so the law is decided by coefficients:
(1) single-split covariance identities proved from the bridge formulas extracted from the real source, for every split ratio;
(2) fresh, independent noise per split: seeds are words of SeedSequence(entropy, (spawn_key, depth)) and (spawn_key, depth)
identifies the node; noise arrays are drawn at the full sample shape; (3) Davie/Foster Levy areas: conditional mean
H(x)W - W(x)H and the prescribed conditional variance; (4) the induction over histories is meta-level: its step is (1)-(2)."""
from fractions import Fraction
import time

import numpy as np
import z3

from props.base import Job, T1, T2, T4, T5, T6
from props import tree_jobs as TJ
from props import agg_jobs as AJ
from props import ctor_jobs as CJ
from pyvc import interp as I
from pyvc.interp import Ctx
from pyvc.tensor import XT
from pyvc.values import SV, to_z3

LEVEL = 'proof'
TRUSTED = ['pyvc interpreter, heap model, torch element models (T6)', 'z3 5.1.0']
ASSUMPTIONS = [T1, T2, T4, T5, T6, 'Gaussianity and independence of distinct seeded streams are T4; what is proved is the linear map']
NOT_DECIDED = ['the induction over refinement histories that assembles the single-split law into the joint law of arbitrary query sets is '
               'meta-level (its step is the single-split obligations plus seed freshness)',
               ]
EXPLANATION = __doc__
BI = 'torchsde._brownian.brownian_interval'


def job_levy(E, rep, tier):
    """_davie_foster_approximation on explicit (1,2) tensors with real elements: antisymmetry, conditional mean, variance."""
    rep.under_contract(BI + '._davie_foster_approximation')
    fn = E.module(BI).globals['_davie_foster_approximation']
    for mode in ('davie', 'foster'):
        cx = Ctx(E, [])
        mk = lambda pre, shape: XT(np.array([SV(cx.fresh(f'{pre}{i}')) for i in range(int(np.prod(shape)))], dtype=object).reshape(shape))
        W, H = mk('W', (1, 2)), mk('H', (1, 2))
        N = mk('N', (1, 2, 2))
        h = cx.real('h')
        cx.assume(h.e > 0)
        n0 = len(cx.obligations)
        A = E.call(fn, [W, H, h, mode, I.ExternFunc('get_noise', lambda: N)], {}, cx, 0)
        tag = f'C04/_davie_foster_approximation[{mode}]'
        for ob in cx.obligations[n0:]:
            ob.name = f'{tag}/{ob.name}'
        rep.take(cx.obligations[n0:])
        rep.bounded.append({'what': tag, 'bound': 'dimension-bounded: batch 1, m = 2; generic in W, H, h, noise'})

        def prove(name, goal, statement):
            t0 = time.time()
            s = z3.Solver()
            s.set('timeout', 30000)
            for ax in E.global_axioms:
                s.add(ax)
            for f in cx.pc:
                s.add(f)
            s.add(z3.Not(goal))
            r = s.check()
            st = 'discharged' if r == z3.unsat else ('refuted' if r == z3.sat else 'unknown')
            model = None
            if r == z3.sat:
                m = s.model()
                model = {str(d.name()): str(m[d]) for d in m.decls() if d.arity() == 0}
            rep.add(f'{tag}/{name}', 'post', st, 'z3-' + z3.get_version_string(), time.time() - t0, model=model, statement=statement)
        a = lambda i, j: to_z3(A.a[0, i, j])
        w = lambda i: to_z3(W.a[0, i])
        hh = lambda i: to_z3(H.a[0, i])
        n = lambda i, j: to_z3(N.a[0, i, j])
        prove('post.antisymmetric', z3.And(a(0, 1) == -a(1, 0), a(0, 0) == 0, a(1, 1) == 0), 'A is antisymmetric')
        mean01 = hh(0) * w(1) - w(0) * hh(1)
        resid = a(0, 1) - mean01
        c = z3.Real('c')
        if mode == 'davie':
            var = h.e * h.e / 12
        else:
            var = h.e * h.e / 20 + (h.e / 5) * (hh(0) * hh(0) + hh(1) * hh(1))
        # residual = c (N01 - N10) with 2 c^2 = prescribed variance (the antisymmetrised unit noise has variance 2)
        prove('post.conditional-mean-and-variance',
              z3.Exists([c], z3.And(c >= 0, 2 * c * c == var, resid == c * (n(0, 1) - n(1, 0)))),
              'A_01 - (H_0 W_1 - W_0 H_1) = c (N_01 - N_10) with 2 c^2 = ' + ('h^2/12' if mode == 'davie' else 'h^2/20 + (h/5)(H_0^2 + H_1^2)'))
    # modes without Levy area return None; batch-only shapes return zeros
    cx = Ctx(E, [])
    W1 = XT(np.array([SV(cx.fresh('w'))], dtype=object))
    for mode in ('none', 'space-time'):
        r = E.call(fn, [W1, W1, cx.real('h'), mode, None], {}, cx, 0)
        rep.add(f'C04/_davie_foster_approximation[{mode}]/returns-None', 'post', 'discharged' if r is None else 'refuted', 'pyvc-exec')


def job_seed_lemmas(E, rep, tier):
    k, k2, d, d2, b, b2 = z3.Ints('k k2 d d2 b b2')
    TJ.prove(rep, 'C04/lemma.node-key-injective.step',
             [z3.Or(b == 0, b == 1), z3.Or(b2 == 0, b2 == 1), 2 * k + b == 2 * k2 + b2, d + 1 == d2 + 1],
             z3.And(k == k2, b == b2, d == d2),
             'children of distinct (spawn_key, depth) parents, or distinct children of one parent, get distinct (spawn_key, depth)')
    TJ.prove(rep, 'C04/lemma.node-key-injective.root', [k >= 0, z3.Or(b == 0, b == 1), d >= 0], z3.Not(z3.And(2 * k + b == 0, d + 1 == 0)),
             'no descendant shares the key (0, 0) of the top node (depth >= 1 below the top)')


def job_key_injective(E, rep, tier):
    """Relational contract of the real _Interval._set_spawn_key_and_depth (what independence of the per-node streams needs of it):
    executed on two arbitrary non-top nodes c1, c2 of an arbitrary heap (parents with spawn_key >= 0, depth >= 0), the assigned
    (spawn_key, depth) pairs coincide only if the parents' pairs coincide and both are children on the same side; and no child gets the
    top node's pair (0, 0).  By induction along the two root paths, distinct nodes then own distinct pairs, i.e. distinct seeds (T4)."""
    from contracts import tree as T
    from pyvc.values import SymRef
    TJ.setup(E, tier)
    rep.under_contract(BI + '._Interval._set_spawn_key_and_depth')
    fn = E.function(BI + '._Interval._set_spawn_key_and_depth')
    cx = Ctx(E, [])
    w = T.World(E, cx)
    h = w.heap
    c1, c2 = cx.fresh('c1', z3.IntSort()), cx.fresh('c2', z3.IntSort())
    pre = h.snapshot()
    p1, p2 = pre.sel('_parent', c1), pre.sel('_parent', c2)
    for c, p in ((c1, p1), (c2, p2)):
        cx.assume(z3.And(h.alloc(c), h.alloc(p), c != p, z3.Not(pre.sel('_midway#none', p)), pre.sel('_spawn_key', p) >= 0, pre.sel('_depth', p) >= 0))
    cx.assume(z3.And(c1 != p2, c2 != p1))      # not parent and child of each other (their depths then differ by the depth clause below)
    E.call_function(fn, [SymRef(c1, 'node')], {}, cx, 0, force_body=True)
    E.call_function(fn, [SymRef(c2, 'node')], {}, cx, 0, force_body=True)
    SK = lambda r: h.sel('_spawn_key', r)
    D = lambda r: h.sel('_depth', r)
    IL = lambda r: h.sel('_is_left', r)
    same = z3.And(SK(c1) == SK(c2), D(c1) == D(c2))
    cx.oblige('C04/_set_spawn_key_and_depth/relational.equal-keys-only-for-same-side-children-of-equal-key-parents',
              z3.Implies(z3.And(c1 != c2, same), z3.And(pre.sel('_spawn_key', p1) == pre.sel('_spawn_key', p2), pre.sel('_depth', p1) == pre.sel('_depth', p2),
                                                        IL(c1) == IL(c2))), 'relational', 0)
    cx.oblige('C04/_set_spawn_key_and_depth/post.child-key-differs-from-the-top-key', z3.Not(z3.And(SK(c1) == 0, D(c1) == 0)), 'post', 0)
    cx.oblige('C04/_set_spawn_key_and_depth/post.depth-is-parent-depth+1-and-key-nonnegative', z3.And(D(c1) == pre.sel('_depth', p1) + 1, SK(c1) >= 0), 'post', 0)
    cx.oblige('C04/_set_spawn_key_and_depth/frame.only-own-key-and-depth-written',
              z3.And(*[h.arr[f] is pre.arr[f] or z3.simplify(h.arr[f] == pre.arr[f]) for f in h.arr if f not in ('_spawn_key', '_depth')]), 'frame', 0)
    rep.take(cx.obligations)


def job_levy_call_site(E, rep, tier):
    """_increment_and_levy_area (the only producer of A): returns (W, H, A) with W, H its own increment and space-time area and
    A = _davie_foster_approximation(W, H, self._end - self._start, top._levy_area_approximation, self._randn_levy) -- the arguments at the
    call site are checked against the contract of the approximation (verified in job levy-area); and the noise seed of a node is the
    a-seed its parent holds for its side."""
    rep.under_contract(BI + '._Interval._increment_and_levy_area', BI + '._Interval._a_seed')
    mod = E.module(BI)
    calls = []
    mod.globals['_davie_foster_approximation'] = I.ExternFunc('_davie_foster_approximation', lambda W, H, h, mode, noise: calls.append((W, H, h, mode, noise)) or 'A-value')
    cx = Ctx(E, [])
    node_cls = E.module(BI).globals['_Interval']
    top = I.ObjVal(I.ClassVal('TopStub', [], {}, None, 'harness.TopStub'), {'_levy_area_approximation': 'foster'})
    for is_left in (True, False):
        parent = I.ObjVal(I.ClassVal('ParentStub', [], {}, None, 'harness.ParentStub'), {'_left_a_seed': 'seed-L', '_right_a_seed': 'seed-R'})
        node = I.ObjVal(node_cls, {'_start': Fraction(1, 4), '_end': Fraction(3, 4), '_top': top, '_parent': parent, '_is_left': is_left})

        def gen_stub():
            return ('W-value', 'H-value')
        node.fields['_increment_and_space_time_levy_area'] = I.ExternFunc('stla', gen_stub)
        del calls[:]
        try:
            out = E.call(E.get_attr(node, '_increment_and_levy_area', cx, 0), [], {}, cx, 0)
        except I.PyExc as e:
            rep.add(f'C04/_increment_and_levy_area[is_left={is_left}]/no-raise', 'no-raise', 'refuted', 'pyvc-exec', model={'raised': f'{e.cls}: {e.msg}'})
            continue
        tag = f'C04/_increment_and_levy_area[is_left={is_left}]'
        ok = isinstance(out, tuple) and out == ('W-value', 'H-value', 'A-value')
        rep.add(f'{tag}/post.returns(W,H,A)', 'post', 'discharged' if ok else 'refuted', 'pyvc-exec', model=None if ok else {'returned': repr(out)[:120]})
        okc = len(calls) == 1 and calls[0][0] == 'W-value' and calls[0][1] == 'H-value' and calls[0][2] == Fraction(1, 2) and calls[0][3] == 'foster'
        rep.add(f'{tag}/call-pre.approximation-gets(W,H,end-start,mode)', 'call-pre', 'discharged' if okc else 'refuted', 'pyvc-exec',
                model=None if okc else {'arguments': [repr(a_)[:40] for a_ in (calls[0][:4] if calls else [])]})
        noise = calls[0][4] if calls else None
        seed = E.call(E.get_attr(node, '_a_seed', cx, 0), [], {}, cx, 0)
        oks = seed == ('seed-L' if is_left else 'seed-R')
        rep.add(f'{tag}/post._a_seed-is-the-parents-seed-for-this-side', 'post', 'discharged' if oks else 'refuted', 'pyvc-exec', model=None if oks else {'seed': repr(seed)})
        okn = isinstance(noise, I.BoundMethod) and noise.obj is node and getattr(noise.func, 'qualname', '').endswith('_Interval._randn_levy')
        rep.add(f'{tag}/call-pre.noise-source-is-own-_randn_levy', 'call-pre', 'discharged' if okn else 'refuted', 'pyvc-exec', model=None if okn else {'noise': repr(noise)[:80]})


def job_noise_shape(E, rep, tier):
    """_randn / _randn_levy draw at the full sample shape: size = top._size and (*top._size, top._size[-1])."""
    from contracts import tree as T
    TJ.setup(E, tier)
    rep.under_contract(BI + '._Interval._randn', BI + '._Interval._randn_levy', BI + '._Interval._a_seed')
    calls = []
    E.module(BI).globals['_randn'] = I.ExternFunc('_randn', lambda size, dtype, device, seed: calls.append((size, dtype, device, seed)) or 'noise')
    for size in ((5,), (2, 3), (2, 3, 4), (2, 2, 2, 3)):
        cx = Ctx(E, [])
        w = T.World(E, cx)
        w.extra.update({'_size': size, '_dtype': 'dtype', '_device': 'device'})
        for n_, f in w.wf() + w.seeds_wf():
            cx.assume(f)
        s = cx.fresh('self', T.Z)
        cx.assume(z3.And(w.heap.alloc(s), s != w.top))
        node = T.SymRef(s, 'node')
        del calls[:]
        E.call(E.get_attr(node, '_randn', cx, 0), [SV(cx.fresh('seed', T.Z))], {}, cx, 0)
        ok = len(calls) == 1 and tuple(calls[0][0]) == tuple(size)
        rep.add(f'C04/_Interval._randn[size={size}]/post.drawn-at-full-sample-shape', 'post', 'discharged' if ok else 'refuted', 'pyvc-exec',
                model=None if ok else {'size passed': str(calls and calls[0][0])})
        if len(size) >= 2:
            del calls[:]
            for branch in (True, False):
                cx2 = Ctx(E, [])
                w2 = T.World(E, cx2)
                w2.extra.update({'_size': size, '_dtype': 'dtype', '_device': 'device'})
                for n_, f in w2.wf() + w2.seeds_wf():
                    cx2.assume(f)
                s2 = cx2.fresh('self', T.Z)
                cx2.assume(z3.And(w2.heap.alloc(s2), s2 != w2.top, w2.heap.sel('_is_left', s2) == branch))
                del calls[:]
                E.call(E.get_attr(T.SymRef(s2, 'node'), '_randn_levy', cx2, 0), [], {}, cx2, 0)
                want = tuple(size) + (size[-1],)
                ok = len(calls) == 1 and tuple(calls[0][0]) == want
                seed_expr = str(z3.simplify(to_z3(calls[0][3]))) if calls else ''
                which = '_left_a_seed' if branch else '_right_a_seed'
                ok_seed = which in seed_expr
                rep.add(f'C04/_Interval._randn_levy[size={size},is_left={branch}]/post.drawn-at-(*size,size[-1])', 'post',
                        'discharged' if ok else 'refuted', 'pyvc-exec', model=None if ok else {'size passed': str(calls and calls[0][0]), 'want': str(want)})
                rep.add(f'C04/_Interval._randn_levy[size={size},is_left={branch}]/post.seed-is-parent.{which}', 'post',
                        'discharged' if ok_seed else 'refuted', 'pyvc-exec', model=None if ok_seed else {'seed': seed_expr})


def jobs(tier):
    P = 'C04'
    return [TJ.job_split_algebra(P, ('law',)), TJ.make(P, 'split_exact', False), Job('levy-area', job_levy),
            Job('seed-lemmas', job_seed_lemmas), Job('key-injective', job_key_injective), Job('levy-call-site', job_levy_call_site), Job('noise-shape', job_noise_shape), CJ.job_constructor(P), AJ.job_aggregation(P)]


def canaries(tier):
    B = BI
    return [
        {'name': 'davie-variance-h2/6', 'job': 'levy-area', 'patches': [(B, 'std = math.sqrt(0.5 * _r12 * h ** 2)', 'std = math.sqrt(_r12 * h ** 2)')]},
        {'name': 'foster-constant-h2/50', 'job': 'levy-area', 'patches': [(B, 'std = (tenth_h * (0.25 * h + H_squared.unsqueeze(-1) + H_squared.unsqueeze(-2))).sqrt()', 'std = (tenth_h * (tenth_h + H_squared.unsqueeze(-1) + H_squared.unsqueeze(-2))).sqrt()')]},
        {'name': 'bridge-third-coeff', 'job': 'split-algebra', 'patches': [(B, 'third_coeff = 2 * (a * left_diff + b * right_diff) * h_reciprocal', 'third_coeff = (a * left_diff + b * right_diff) * h_reciprocal')]},
        {'name': 'halfway-assumes-equal-halves', 'job': 'split-algebra', 'patches': [(B, '            left_diff = parent._midway - parent._start\n            right_diff = parent._end - parent._midway\n', '            left_diff = parent._midway - parent._start\n            right_diff = parent._end - parent._midway\n            if self._top._halfway_tree:\n                left_diff = right_diff = 0.5 * (parent._end - parent._start)\n')]},
        {'name': 'levy-noise-broadcast-over-batch', 'job': 'noise-shape', 'patches': [(B, 'size = (*self._top._size, *self._top._size[-1:])\n        return _randn', 'size = (*self._top._size[-2:], *self._top._size[-1:])\n        return _randn')]},
        {'name': 'spawn-key-truncated-to-32-bits', 'job': 'key-injective',
         'patches': [(B, 'self._spawn_key = 2 * self._parent._spawn_key + (0 if self._is_left else 1)', 'self._spawn_key = (2 * self._parent._spawn_key + (0 if self._is_left else 1)) & 0xFFFFFFFF')]},
        {'name': 'children-share-seed-key', 'job': 'split_exact', 'patches': [(B, 'self._spawn_key = 2 * self._parent._spawn_key + (0 if self._is_left else 1)', 'self._spawn_key = 2 * self._parent._spawn_key')]},
    ]


def native_replay(ob):
    from props.base import run_native
    return run_native('c04')
