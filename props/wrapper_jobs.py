"""Jobs for the Brownian wrappers (derived.py), shared by C03 / C05 / C06."""
import z3

from props.base import Job
from pyvc import interp as I
from pyvc.interp import Ctx, PyExc
from pyvc.values import SV, to_z3
from contracts import wrappers as WR

D = 'torchsde._brownian.derived'


def _cls(E, name):
    return E.module(D).globals[name]


def job_wrappers(prefix):
    def fn(E, rep, tier):
        import time
        rep.under_contract(D + '.ReverseBrownian.__call__', D + '.BrownianPath.__call__', D + '.BrownianTree.__call__')
        WR.install_inplace_guard(E)

        def prove(name, hyps, goal, statement=None):
            t0 = time.time()
            s = z3.Solver()
            s.set('timeout', 30000)
            for h in hyps:
                s.add(h)
            s.add(z3.Not(goal))
            r = s.check()
            st = 'discharged' if r == z3.unsat else ('refuted' if r == z3.sat else 'unknown')
            rep.add(name, 'post', st, 'z3-' + z3.get_version_string(), time.time() - t0,
                    model=str(s.model()) if r == z3.sat else None, statement=statement or str(goal)[:200])
        # ---- ReverseBrownian: the reversed path W~c(t) = -Wc(-t), V~(t) = V(-t), A~ = -A
        for (ru, ra) in ((False, False), (True, False), (False, True), (True, True)):
            cx = Ctx(E, [])
            base = WR.BaseBM()
            obj = I.ObjVal(_cls(E, 'ReverseBrownian'), {'base_brownian': base})
            ta, tb = cx.real('ta'), cx.real('tb')
            n0 = len(cx.obligations)
            out = E.call(E.get_attr(obj, '__call__', cx, 0), [ta, tb], {'return_U': ru, 'return_A': ra}, cx, 0)
            tag = f'{prefix}/ReverseBrownian.__call__[return_U={ru},return_A={ra}]'
            for ob in cx.obligations[n0:]:
                ob.name = f'{tag}/{ob.name}'
            rep.take(cx.obligations[n0:])
            outs = out if isinstance(out, tuple) else (out,)
            a, b = ta.e, tb.e
            Wt = lambda x: -WR.WC(-x)
            Vt = lambda x: WR.VV(-x)
            hyps = [a <= b] + list(cx.pc)
            prove(f'{tag}/post.W', hyps, to_z3(outs[0]) == Wt(b) - Wt(a), 'W is the increment of the time-reversed path')
            k = 1
            if ru:
                prove(f'{tag}/post.U', hyps, to_z3(outs[k]) == Vt(b) - Vt(a) - (b - a) * Wt(a), 'U is the space-time integral of the time-reversed path')
                k += 1
            if ra:
                prove(f'{tag}/post.A', hyps, to_z3(outs[k]) == -WR.AA(-b, -a), 'A is minus the base Levy area (time reversal)')
            q = base.calls
            ok = len(q) == 1 and z3.is_true(z3.simplify(z3.And(to_z3(q[0][0]) == -b, to_z3(q[0][1]) == -a)))
            rep.add(f'{tag}/frame.one-base-query(-tb,-ta)', 'frame', 'discharged' if ok else 'refuted', 'pyvc-exec')
        # ---- tensor-valued times in a higher precision than the motion: the base is queried at exactly (-tb, -ta), no conversion of the times
        cx = Ctx(E, [])
        base = WR.BaseBM()
        obj = E.instantiate(_cls(E, 'ReverseBrownian'), [base], {}, cx, 0)
        ta, tb = WR.TimeTensor(cx.fresh('ta')), WR.TimeTensor(cx.fresh('tb'))
        cx.assume(ta.e <= tb.e)
        try:
            E.call(E.get_attr(obj, '__call__', cx, 0), [ta, tb], {'return_U': True, 'return_A': False}, cx, 0)
            q = base.calls
            s_ = z3.Solver()
            s_.set('timeout', 20000)
            for f_ in cx.pc:
                s_.add(f_)
            s_.add(z3.Not(z3.And(to_z3(q[0][0]) == -tb.e, to_z3(q[0][1]) == -ta.e)) if len(q) == 1 else z3.BoolVal(True))
            r_ = s_.check()
            ok = len(q) == 1 and r_ == z3.unsat
            rep.add(f'{prefix}/ReverseBrownian.__call__[tensor-valued times of another dtype]/frame.one-base-query(-tb,-ta)-at-full-precision', 'frame',
                    'discharged' if ok else ('refuted' if r_ == z3.sat or len(q) != 1 else 'unknown'), 'pyvc-exec+z3',
                    model=None if ok else {'base query': [str(z3.simplify(to_z3(x))) for x in q[0][:2]] if q else 'none'})
        except PyExc as e:
            rep.add(f'{prefix}/ReverseBrownian.__call__[tensor-valued times of another dtype]/no-raise', 'no-raise', 'refuted', 'pyvc-exec', model={'raised': f'{e.cls}: {e.msg}'})
        # ---- ReverseBrownian.__init__: wraps exactly the object it is given, whatever its class (reversing twice is the original motion
        #      only because two wrappers compose; the adjoint of an adjoint and solves on negative times rely on it)
        rep.under_contract(D + '.ReverseBrownian.__init__')
        cx = Ctx(E, [])
        base = WR.BaseBM()
        once = E.instantiate(_cls(E, 'ReverseBrownian'), [base], {}, cx, 0)
        twice = E.instantiate(_cls(E, 'ReverseBrownian'), [once], {}, cx, 0)
        ok = once.fields.get('base_brownian') is base and twice.fields.get('base_brownian') is once
        rep.add(f'{prefix}/ReverseBrownian.__init__/post.wraps-exactly-the-given-object(also-a-ReverseBrownian)', 'post', 'discharged' if ok else 'refuted', 'pyvc-exec',
                model=None if ok else {'ReverseBrownian(ReverseBrownian(bm)).base_brownian': repr(twice.fields.get('base_brownian'))})
        ta, tb = cx.real('ta'), cx.real('tb')
        out = E.call(E.get_attr(twice, '__call__', cx, 0), [ta, tb], {'return_U': True, 'return_A': True}, cx, 0)
        a, b = ta.e, tb.e
        hyps = [a <= b] + list(cx.pc)
        prove(f'{prefix}/ReverseBrownian(ReverseBrownian(bm))/post.W', hyps, to_z3(out[0]) == WR.WC(b) - WR.WC(a), 'reversing twice gives the increments of the original path')
        prove(f'{prefix}/ReverseBrownian(ReverseBrownian(bm))/post.U', hyps, to_z3(out[1]) == WR.VV(b) - WR.VV(a) - (b - a) * WR.WC(a))
        prove(f'{prefix}/ReverseBrownian(ReverseBrownian(bm))/post.A', hyps, to_z3(out[2]) == WR.AA(a, b))
        # ---- BrownianPath / BrownianTree: interval queries are forwarded unchanged; point queries add w0; nothing is written
        for cname in ('BrownianPath', 'BrownianTree'):
            for (ru, ra) in ((False, False), (True, False), (True, True)):
                for point in (False, True):
                    cx = Ctx(E, [])
                    base = WR.BaseBM()
                    w0 = cx.real('w0')
                    obj = I.ObjVal(_cls(E, cname), {'_interval': base, '_w0': w0})
                    ta, tb = cx.real('ta'), cx.real('tb')
                    n0 = len(cx.obligations)
                    args = [ta] if point else [ta, tb]
                    out = E.call(E.get_attr(obj, '__call__', cx, 0), args, {'return_U': ru, 'return_A': ra}, cx, 0)
                    tag = f'{prefix}/{cname}.__call__[{"point" if point else "interval"},return_U={ru},return_A={ra}]'
                    for ob in cx.obligations[n0:]:
                        ob.name = f'{tag}/{ob.name}'
                    rep.take(cx.obligations[n0:])
                    outs = out if isinstance(out, tuple) else (out,)
                    if point:
                        if not ru and not ra:
                            prove(f'{tag}/post.value', list(cx.pc), to_z3(outs[0]) == WR.WC(ta.e) - WR.WC(0) + w0.e, 'w(t) = w0 + W(t0, t)')
                    else:
                        prove(f'{tag}/post.W-forwarded', list(cx.pc), to_z3(outs[0]) == WR.WC(tb.e) - WR.WC(ta.e), 'interval queries return the wrapped object\'s increment')
                        if ru:
                            prove(f'{tag}/post.U-forwarded', list(cx.pc), to_z3(outs[1]) == WR.VV(tb.e) - WR.VV(ta.e) - (tb.e - ta.e) * WR.WC(ta.e))
                    ok = len(base.calls) == 1
                    rep.add(f'{tag}/frame.one-base-query', 'frame', 'discharged' if ok else 'refuted', 'pyvc-exec')
                    same = obj.fields['_interval'] is base and obj.fields['_w0'] is w0 and set(obj.fields) == {'_interval', '_w0'}
                    rep.add(f'{tag}/frame.wrapper-state-unchanged', 'frame', 'discharged' if same else 'refuted', 'pyvc-exec')
    return Job('wrappers', fn)
