"""C11 - adjoint SDE vector fields are the exact vector-Jacobian products.

Oracle (derived mechanically from the property, not transcribed): write the forward SDE in Stratonovich form
(f~ = f - 1/2 sum_j (d g_j/dy) g_j if Ito), form the reverse-time Stratonovich adjoint system
drift (-f~, a.d_y f~, a.d_theta f~), diffusion columns G_j = (-g_j, a.d_y g_j, a.d_theta g_j), and for an Ito
adjoint solver convert back with + 1/2 sum_j (dG_j/dx) G_j, x = (y, a).  All derivatives are formal derivatives of the
generic smooth f, g (DynJetFunction) -- exact, non-perturbative, generic in (t, y, a, theta, v).
"""
from fractions import Fraction

import numpy as np

from props.base import Job, T1, T3, T6, T7
from props import adj_common as AC
from pyvc import harness as H, tensor, interp as I
from pyvc.interp import PyExc
from pyvc.poly import Poly
from pyvc.tensor import XT, GradMode, el_detach

LEVEL = 'proof'
TRUSTED = ['pyvc interpreter, torch element models, polynomial kernel (T6)', 'autograd axiomatised as formal differentiation (T3)']
ASSUMPTIONS = [T1, T3, T6, T7]
EXPLANATION = __doc__
A = 'torchsde._core.adjoint_sde.AdjointSDE.'
FUNCS = [A + n for n in ('__init__', 'get_state', '_f_uncorrected', '_f_corrected_default', '_f_corrected_diagonal', '_g_prod',
                         'f_uncorrected', 'f_corrected_default', 'f_corrected_diagonal', 'g_prod', 'f_and_g_prod_uncorrected',
                         'f_and_g_prod_corrected_default', 'f_and_g_prod_corrected_diagonal', 'g_prod_and_gdg_prod_diagonal')] + \
        ['torchsde._core.misc.vjp', 'torchsde._core.misc.jvp', 'torchsde._core.misc.flatten', 'torchsde._core.misc.flat_to_shape',
         'torchsde._core.misc.convert_none_to_zeros', 'torchsde._core.misc.seq_add', 'torchsde._core.misc.seq_sub']


def dpoly(p, leafs):
    """Gradient of polynomial p w.r.t. the eta variables of leaf tensor(s): array shaped like the leaf."""
    out = np.empty(leafs.a.shape, dtype=object)
    flat = out.reshape(-1)
    for i, nm in enumerate(leafs.eta):
        flat[i] = Poly.lift(p).diff(nm)
    return out


class Oracle:
    def __init__(self, S, y, a, tau):
        """y, a: leaf tensors (B,d); tau adjoint time (forward functions are evaluated at -tau)."""
        self.S, self.y, self.a = S, y, a
        B, d = y.a.shape
        self.B, self.d = B, d
        t = -tau
        f = S.f.evaluate(t, y).a
        g = S.g.evaluate(t, y).a
        m = S.m
        if S.noise == 'diagonal':
            G = np.empty((B, d, m), dtype=object)
            for b in range(B):
                for i in range(d):
                    for j in range(m):
                        G[b, i, j] = g[b, i] if i == j else Poly()
            g = G
        self.g = g
        self.m = g.shape[2]
        ito = S.sde_type == 'ito'
        ft = f.copy()
        if ito:
            for b in range(B):
                for i in range(d):
                    corr = Poly()
                    for j in range(self.m):
                        dg = dpoly(g[b, i, j], y)
                        for k in range(d):
                            corr = corr + dg[b, k] * g[b, k, j]
                    ft[b, i] = f[b, i] - Fraction(1, 2) * corr
        self.ft = ft
        # Stratonovich adjoint drift and diffusion columns
        self.drift = self.vjp_block(ft, sign_first=-1)
        self.G = [self.vjp_block(g[:, :, j], sign_first=-1) for j in range(self.m)]
        if ito:
            conv = None
            for j in range(self.m):
                cj = self.dG_G(self.G[j], self.G[j])
                conv = cj if conv is None else [x + y_ for x, y_ in zip(conv, cj)]
            self.drift = [x + np.vectorize(lambda q: Fraction(1, 2) * q, otypes=[object])(c) for x, c in zip(self.drift, conv)]

    def vjp_block(self, h, sign_first):
        """(sign*h, a . d_y h, a . d_theta h [per parameter]) for h of shape (B,d)."""
        B, d = self.B, self.d
        S = self.S
        s = Poly()
        for b in range(B):
            for i in range(d):
                s = s + Poly.lift(self.a.a[b, i]) * Poly.lift(h[b, i])
        # differentiate only the h-dependence: a is held fixed => subtract the part coming from a's own eta
        first = np.vectorize(lambda q: sign_first * Poly.lift(q), otypes=[object])(h)
        ay = np.empty((B, d), dtype=object)
        for b in range(B):
            for k in range(d):
                tot = Poly()
                for i in range(d):
                    tot = tot + Poly.lift(self.a.a[b, i]) * Poly.lift(h[b, i]).diff(self.y.eta[b * d + k])
                ay[b, k] = tot
        ath = []
        for th in S.params + ([S.unused] if S.unused is not None else []):
            tot = Poly()
            for b in range(B):
                for i in range(d):
                    tot = tot + Poly.lift(self.a.a[b, i]) * Poly.lift(h[b, i]).diff(th.eta[0])
            ath.append(np.array(tot, dtype=object).reshape(()))
        return [first, ay] + ath

    def dG_G(self, Gj, Hj):
        """(dG_j/dx) H_j with x = (y, a): directional derivative of the block vector G_j along (H_j^y, H_j^a)."""
        B, d = self.B, self.d
        out = []
        for blk in Gj:
            res = np.empty(blk.shape, dtype=object)
            for idx in np.ndindex(*blk.shape) if blk.shape else [()]:
                p = Poly.lift(blk[idx])
                tot = Poly()
                for b in range(B):
                    for k in range(d):
                        tot = tot + p.diff(self.y.eta[b * d + k]) * Poly.lift(Hj[0][b, k])
                        tot = tot + p.diff(self.a.eta[b * d + k]) * Poly.lift(Hj[1][b, k])
                res[idx] = tot
            out.append(res)
        return out

    def g_prod(self, v):
        """sum_j G_j v_j (v: (B, m) array)."""
        out = None
        for j in range(self.m):
            blk = []
            for part in self.G[j]:
                if part.shape == (self.B, self.d):
                    r = np.empty(part.shape, dtype=object)
                    for b in range(self.B):
                        for i in range(self.d):
                            r[b, i] = Poly.lift(part[b, i]) * Poly.lift(v[b, j])
                    blk.append(r)
                else:
                    blk.append(None)
            out = blk if out is None else [None if x is None else x + y_ for x, y_ in zip(out, blk)]
        # parameter blocks: sum over batch rows with their own v -> recompute directly
        S = self.S
        pars = S.params + ([S.unused] if S.unused is not None else [])
        for pi, th in enumerate(pars):
            tot = Poly()
            for b in range(self.B):
                for i in range(self.d):
                    for j in range(self.m):
                        tot = tot + Poly.lift(self.a.a[b, i]) * Poly.lift(self.g[b, i, j]).diff(th.eta[0]) * Poly.lift(v[b, j])
            out[2 + pi] = np.array(tot, dtype=object).reshape(())
        return out

    def gdg_prod_diagonal(self, v2):
        """sum_j (dG_j/dx) G_j v2_j for diagonal noise (v2: (B, d))."""
        B, d = self.B, self.d
        S = self.S
        pars = S.params + ([S.unused] if S.unused is not None else [])
        # G_j depends on the batch row only through that row; with per-row weights v2[b, j] we use G_j^{(b)} restricted to row b
        tot = None
        for j in range(self.m):
            for b in range(B):
                Gb = self.row_G(j, b)
                c = self.dG_G(Gb, Gb)
                c = [np.vectorize(lambda q: Poly.lift(q) * Poly.lift(v2[b, j]), otypes=[object])(x) for x in c]
                tot = c if tot is None else [x + y_ for x, y_ in zip(tot, c)]
        return tot

    def row_G(self, j, b):
        """Column j of the augmented diffusion driven by batch row b's Brownian channel j only."""
        B, d = self.B, self.d
        S = self.S
        first = np.empty((B, d), dtype=object)
        ay = np.empty((B, d), dtype=object)
        for bb in range(B):
            for i in range(d):
                first[bb, i] = -Poly.lift(self.g[bb, i, j]) if bb == b else Poly()
                tot = Poly()
                if bb == b:
                    for ii in range(d):
                        tot = tot + Poly.lift(self.a.a[b, ii]) * Poly.lift(self.g[b, ii, j]).diff(self.y.eta[b * d + i])
                ay[bb, i] = tot
        ath = []
        for th in S.params + ([S.unused] if S.unused is not None else []):
            tot = Poly()
            for i in range(d):
                tot = tot + Poly.lift(self.a.a[b, i]) * Poly.lift(self.g[b, i, j]).diff(th.eta[0])
            ath.append(np.array(tot, dtype=object).reshape(()))
        return [first, ay] + ath


def flat_blocks(blocks):
    return np.concatenate([np.asarray(b, dtype=object).reshape(-1) for b in blocks])


def make_job(sde_type, noise, B, d, m, grad_enabled):
    def fn(E, rep, tier):
        rep.under_contract(*FUNCS)
        mode = 'grad-enabled' if grad_enabled else 'no-grad'
        tag = f'C11/AdjointSDE[{sde_type},{noise},B={B},d={d},m={m},{mode}]'
        S = AC.setup(E, noise, sde_type, B, d, m, eta_limit=4, unused_param=True)
        cx = S.cx
        rep.bounded.append({'what': tag, 'bound': f'dimension-bounded B={B}, d={d}, m={m}; generic in f, g, t, y, a, theta, v'})
        tau = Poly.var('tau')
        pars = S.params + [S.unused]
        ysym, asym = H.sym_array('y', (B, d)), H.sym_array('a', (B, d))
        acls = E.module('torchsde._core.adjoint_sde').globals['AdjointSDE']
        zeros = [XT(np.array(Poly.var(f'ap{k}'), dtype=object).reshape(())) for k in range(len(pars))]
        vals = [XT(ysym), XT(asym)] + zeros
        shapes = [v.shape for v in vals]
        adj = E.instantiate(acls, [S.sde, list(pars), shapes], {}, cx, 0)
        flatten = E.module('torchsde._core.misc').globals['flatten']
        y_aug = XT(E.call(flatten, [vals], {}, cx, 0).m_unsqueeze(0).a)
        if grad_enabled:
            y_aug.m_requires_grad_(True)
            # oracle leaves are the corresponding views of y_aug
            yl = XT(y_aug.a[0, :B * d].reshape(B, d)); yl.eta = y_aug.eta[:B * d]; yl.rg = True
            al = XT(y_aug.a[0, B * d:2 * B * d].reshape(B, d)); al.eta = y_aug.eta[B * d:2 * B * d]; al.rg = True
        else:
            yl, al = AC.leaf(ysym), AC.leaf(asym)
        orc = Oracle(S, yl, al, tau)
        v = H.sym_array('v', (B, S.m if noise != 'diagonal' else d))
        vt = XT(v)
        gm = GradMode(grad_enabled)
        gm.__pyvc_enter__(cx)
        # frame: the vector fields are functions of their arguments -- no method may store anything on the AdjointSDE object (a value
        # remembered from one query could be served to a query at another time or state)
        written = []
        prev_setattr = E.hooks.get('setattr')

        def watch(eng, obj, name, v_, cx_, lineno):
            if obj is adj:
                written.append((name, lineno))
            return prev_setattr(eng, obj, name, v_, cx_, lineno) if prev_setattr is not None else NotImplemented
        E.hooks['setattr'] = watch
        try:
            results = {}
            results['f'] = E.call(E.get_attr(adj, 'f', cx, 0), [tau, y_aug], {}, cx, 0)
            results['g_prod'] = E.call(E.get_attr(adj, 'g_prod', cx, 0), [tau, y_aug, vt], {}, cx, 0)
            fo, go = E.call(E.get_attr(adj, 'f_and_g_prod', cx, 0), [tau, y_aug, vt], {}, cx, 0)
            results['f_and_g_prod.f'], results['f_and_g_prod.g_prod'] = fo, go
            if noise == 'diagonal':
                v2 = H.sym_array('u', (B, d))
                r1, r2 = E.call(E.get_attr(adj, 'g_prod_and_gdg_prod', cx, 0), [tau, y_aug, vt, XT(v2)], {}, cx, 0)
                results['g_prod_and_gdg_prod.g_prod'], results['g_prod_and_gdg_prod.gdg_prod'] = r1, r2
            else:
                try:
                    E.call(E.get_attr(adj, 'g_prod_and_gdg_prod', cx, 0), [tau, y_aug, vt, vt], {}, cx, 0)
                    rep.add(f'{tag}/g_prod_and_gdg_prod.raises-NotImplementedError', 'raises', 'refuted', 'pyvc-exec')
                except PyExc as e:
                    rep.add(f'{tag}/g_prod_and_gdg_prod.raises-NotImplementedError', 'raises',
                            'discharged' if e.cls == 'NotImplementedError' else 'refuted', 'pyvc-exec')
        finally:
            gm.__pyvc_exit__(cx)
            if prev_setattr is not None:
                E.hooks['setattr'] = prev_setattr
            else:
                E.hooks.pop('setattr', None)
        rep.add(f'{tag}/frame.vector-fields-store-nothing-on-the-AdjointSDE', 'frame', 'discharged' if not written else 'refuted', 'pyvc-exec',
                model=None if not written else {'attributes written': [f'{n} (line {l})' for n, l in written[:4]]})
        want = {'f': flat_blocks(orc.drift), 'f_and_g_prod.f': flat_blocks(orc.drift)}
        gp = flat_blocks(orc.g_prod(v))
        want['g_prod'] = gp
        want['f_and_g_prod.g_prod'] = gp
        if noise == 'diagonal':
            want['g_prod_and_gdg_prod.g_prod'] = gp
            want['g_prod_and_gdg_prod.gdg_prod'] = flat_blocks(orc.gdg_prod_diagonal(v2))
        first_order = y_aug.eta if grad_enabled else []
        for name, got in results.items():
            ga = got.a.reshape(-1)
            wa = want[name]
            # the adjoint state is one batch row: every vector field returns shape (1, n) like y_aug
            if tuple(got.a.shape) != tuple(y_aug.a.shape):
                rep.add(f'{tag}/{name}.shape-of-the-augmented-state', 'post', 'refuted', 'pyvc-exec', model={'got': str(got.a.shape), 'want': str(y_aug.a.shape)})
                continue
            if ga.shape != wa.shape:
                rep.add(f'{tag}/{name}.shape', 'post', 'refuted', 'pyvc-exec', model={'got': str(got.a.shape), 'want': str(wa.shape)})
                continue
            bad = None
            for i in range(ga.shape[0]):
                diff = Poly.lift(ga[i]) - Poly.lift(wa[i])
                if not el_detach(diff).is_zero():
                    bad = el_detach(diff)
                    break
            rep.poly_zero(f'{tag}/{name}.value', bad if bad is not None else Poly(),
                          statement=f'{name}(tau, (y,a,..), v) == oracle (values)')
            if grad_enabled:
                bad = None
                for i in range(ga.shape[0]):
                    diff = Poly.lift(ga[i]) - Poly.lift(wa[i])
                    for nm in first_order:
                        dd = el_detach(diff.diff(nm))
                        if not dd.is_zero():
                            bad = dd
                            break
                    if bad is not None:
                        break
                rep.poly_zero(f'{tag}/{name}.remains-differentiable', bad if bad is not None else Poly(),
                              statement='with grad enabled the derivative of the output w.r.t. every element of the augmented state equals the oracle\'s',
                              finding_key=('C11/AdjointSDE.g_prod_and_gdg_prod_diagonal/remains-differentiable'
                                           if name == 'g_prod_and_gdg_prod.gdg_prod' else None))
                attached = got.rg
                rep.add(f'{tag}/{name}.attached', 'post', 'discharged' if attached else 'refuted', 'pyvc-exec')
            else:
                clean = (not got.rg) and not any(tensor.el_has_eta(e) for e in ga)
                rep.add(f'{tag}/{name}.no-graph-when-grad-disabled', 'post', 'discharged' if clean else 'refuted', 'pyvc-exec')
        # the block of the unused parameter is identically zero
        blocks = E.call(E.module('torchsde._core.misc').globals['flat_to_shape'], [results['f'].m_squeeze(0), shapes], {}, cx, 0)
        rep.poly_zero(f'{tag}/f.unused-parameter-block-is-zero', el_detach(Poly.lift(blocks[-1].a.reshape(-1)[0])))
        # time reversal: the forward functions were evaluated at -tau only
        times = set()
        for fn_ in (S.f, S.g):
            for key in fn_.points:
                times.add(key[1])
        ok = times == {(-tau).key()}
        rep.add(f'{tag}/forward-functions-evaluated-at(-t)', 'post', 'discharged' if ok else 'refuted', 'pyvc-exec',
                model=None if ok else {'times': [str(x)[:80] for x in times]})
    return Job(f'{sde_type}-{noise}-B{B}d{d}m{m}-{"grad" if grad_enabled else "nograd"}', fn)


def jobs(tier):
    out = []
    for sde_type in ('ito', 'stratonovich'):
        for noise in ('diagonal', 'scalar', 'additive', 'general'):
            for (B, d, m) in [(1, 1, 1), (2, 2, 2)]:
                mm = d if noise == 'diagonal' else (1 if noise == 'scalar' else m)
                out.append(make_job(sde_type, noise, B, d, mm, False))
                if (B, d) == (1, 1) or tier == 'thorough' or noise in ('diagonal', 'general'):
                    out.append(make_job(sde_type, noise, B, d, mm, True))
    return out


def canaries(tier):
    M = 'torchsde._core.adjoint_sde'
    return [
        {'name': 'always-detach-y', 'job': 'stratonovich-general-B1d1m1-grad',
         'patches': [(M, "        if not y.requires_grad:\n            y = y.detach().requires_grad_()\n        return y, adj_y, extra_states, requires_grad",
                      "        y = y.detach().requires_grad_()\n        return y, adj_y, extra_states, requires_grad")]},
        {'name': 'ito-correction-sign', 'job': 'ito-diagonal-B2d2m2-nograd',
         'patches': [(M, "        f = f - g_dg_vjp\n", "        f = f + g_dg_vjp\n")]},
        {'name': 'forward-time-not-reversed', 'job': 'stratonovich-scalar-B1d1m1-nograd',
         'patches': [(M, "            g_prod = self.forward_sde.g_prod(-t, y, v)", "            g_prod = self.forward_sde.g_prod(t, y, v)")]},
        {'name': 'graph-kept-without-grad', 'job': 'ito-general-B1d1m1-nograd',
         'patches': [(M, "        if not requires_grad:\n            g_prod = g_prod.detach()\n", "")]},
        {'name': 'wrong-dispatch-ito-scalar', 'job': 'ito-scalar-B2d2m1-nograd',
         'patches': [(M, "                NOISE_TYPES.scalar: self.f_corrected_default,\n", "                NOISE_TYPES.scalar: self.f_uncorrected,\n")]},
    ]


def native_replay(ob):
    """Observable consequence of a wrong adjoint vector field: the adjoint gradient no longer agrees with backpropagation at a fine step."""
    from props.base import run_native
    r = run_native('c11')
    return r if r.get('reproduced') else run_native('c09')
