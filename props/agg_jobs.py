"""The aggregation loop of BrownianInterval.__call__ on explicit tensors (X domain): when a query is answered by K >= 2 tree nodes the
real loop must combine their (W_i, H_i, A_i) by Chen's relation -- per batch element:

    W = sum_i W_i
    U = sum_i [ h_i (W_i / 2 + H_i) + h_i sum_{j<i} W_j ]                       (space-time integral of the concatenated path)
    A = sum_i A_i + 1/2 sum_{i<j} (W_i (x) W_j - W_j (x) W_i)                     (Levy area of the concatenated path)

The node list, the node values and the interval lengths are supplied by stubs (contract of _loc / _increment_and_levy_area, proved in
the heap-domain jobs); the loop body itself is the real code.  Generic in all node values (polynomial identities); K, the sizes and the
interval end points are fixed small instances (dimension-bounded)."""
import itertools
from fractions import Fraction

import numpy as np

from props.base import Job
from pyvc import interp as I, harness as H, tensor
from pyvc.interp import Ctx
from pyvc.poly import Poly
from pyvc.tensor import XT

BI = 'torchsde._brownian.brownian_interval'


def _sym(name, shape):
    a = np.empty(shape, dtype=object)
    for idx in np.ndindex(*shape):
        a[idx] = Poly.var(name + ''.join(f'_{i}' for i in idx))
    return XT(a)


def job_aggregation(prefix):
    def fn(E, rep, tier):
        tensor.install(E)
        rep.under_contract(BI + '.BrownianInterval.__call__', BI + '._H_to_U')
        cls = E.module(BI).globals['BrownianInterval']
        fn_call = E.function(BI + '.BrownianInterval.__call__')
        node_cls = I.ClassVal('NodeStub', [], {}, None, 'harness.NodeStub')
        loc_cls = I.ClassVal('LocStub', [], {}, None, 'harness.LocStub')
        configs = [((2, 2), [0, Fraction(1, 4), Fraction(1, 2), 1]), ((2, 2), [0, Fraction(1, 8), Fraction(1, 2), Fraction(3, 4), 1]),
                   ((3,), [0, Fraction(1, 4), Fraction(1, 2), 1])]
        if tier == 'thorough':
            configs.append(((2, 2, 2), [0, Fraction(1, 4), Fraction(1, 2), 1]))
        for size, pts in configs:
            K = len(pts) - 1
            cx = Ctx(E, [])
            Ws = [_sym(f'W{i}', size) for i in range(K)]
            Hs = [_sym(f'H{i}', size) for i in range(K)]
            have_A = len(size) >= 2
            As = [_sym(f'A{i}', size + size[-1:]) for i in range(K)] if have_A else [None] * K
            nodes = []
            for i in range(K):
                vals = (Ws[i], Hs[i], As[i])
                nodes.append(I.ObjVal(node_cls, {'_start': pts[i], '_end': pts[i + 1],
                                                 '_increment_and_levy_area': I.ExternFunc('node._increment_and_levy_area', (lambda v: (lambda: v))(vals))}))
            loc = I.ObjVal(loc_cls, {'_loc': I.ExternFunc('node._loc', lambda ta, tb: list(nodes))})
            self_ = I.ObjVal(cls, {'_start': pts[0], '_end': pts[-1], '_round': I.ExternFunc('identity', lambda x: x), '_size': tuple(size),
                                   '_dtype': 'dtype', '_device': 'device', '_have_H': True, '_have_A': have_A, '_dt': Fraction(1, 100),
                                   '_halfway_tree': False, '_last_interval': loc, '_tol': Fraction(0),
                                   '_levy_area_approximation': 'davie' if have_A else 'space-time'})
            out = E.call_function(fn_call, [self_, pts[0], pts[-1]], {'return_U': True, 'return_A': True}, cx, 0, force_body=True)
            W, U, A = out
            tag = f'{prefix}/call[aggregation of K={K} nodes, size={tuple(size)}]'
            rep.bounded.append({'what': tag, 'bound': f'K={K} nodes, size={tuple(size)}, end points {[str(p) for p in pts]}; generic in all node values'})
            hs = [pts[i + 1] - pts[i] for i in range(K)]
            wantW = sum((w.a for w in Ws[1:]), Ws[0].a)
            wantU = None
            for i in range(K):
                prev = sum((Ws[j].a for j in range(i)), np.full(size, Poly(), dtype=object))
                term = (Ws[i].a * Fraction(1, 2) + Hs[i].a + prev) * hs[i]
                wantU = term if wantU is None else wantU + term
            def same(got, want, name, statement):
                bad = None
                if got is None or tuple(got.a.shape) != tuple(want.shape):
                    bad = Poly.const(1)
                else:
                    for g_, w_ in zip(got.a.reshape(-1), want.reshape(-1)):
                        dlt = Poly.lift(g_) - Poly.lift(w_)
                        if not dlt.is_zero():
                            bad = dlt
                            break
                rep.poly_zero(f'{tag}/{name}', bad if bad is not None else Poly(), statement=statement)
            same(W, wantW, 'post.W=sum(W_i)', 'increment of the concatenated path')
            same(U, wantU, 'post.U=chen(W_i,H_i,h_i)', 'U = sum_i h_i (W_i/2 + H_i + sum_{j<i} W_j)')
            if have_A:
                wantA = sum((a.a for a in As[1:]), As[0].a)
                for i, j in itertools.combinations(range(K), 2):
                    wi, wj = Ws[i].a, Ws[j].a
                    cross = (wi[..., :, None] * wj[..., None, :] - wj[..., :, None] * wi[..., None, :]) * Fraction(1, 2)
                    wantA = wantA + cross
                same(A, wantA, 'post.A=chen(A_i,W_i)', 'A = sum_i A_i + 1/2 sum_{i<j} (W_i (x) W_j - W_j (x) W_i), per batch element')
                ok = self_.fields.get('_last_interval') is nodes[-1]
                rep.add(f'{tag}/post.last-interval-is-the-last-node', 'post', 'discharged' if ok else 'refuted', 'pyvc-exec')
            else:
                rep.add(f'{tag}/post.A-unchanged-for-1-d-size', 'post', 'discharged' if A is None else 'refuted', 'pyvc-exec')
    return Job('call-aggregation', fn)
