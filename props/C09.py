"""C09 - adjoint: same forward values as sdeint; gradients converge to the true gradient.

Decided here (bounded instances, generic in f, g, y0, parameters, loss weights, Brownian increments):
 (1) the real sdeint_adjoint returns exactly the values the real sdeint returns for the same arguments and Brownian motion
     (both top-level functions are executed, including check_contract and the solver constructors);
 (2) backward-pass structure: the real _SdeintAdjointMethod.backward equals the specification "integrate the adjoint SDE backwards
     over each output interval [ts[i-1], ts[i]] with the same dt and the time-reversed *same* Brownian motion, add grad_ys[i-1] at each
     output time and reset the state part to the stored ys[i-1]" -- the specification is evaluated with the real AdjointSDE (whose vector
     fields are C11) and the real adjoint solver; gradient routing: 13 non-tensor slots None, None for extra solver state, one gradient
     per adjoint parameter, only parameters that require grad are asked for;
 (3) convergence as dt -> 0 is the trusted theorem (Li et al. 2020, T5) applied to (2) + C11 + C01: NOT proved."""
from fractions import Fraction

import numpy as np

from props.base import Job, T1, T3, T5, T6, T7
from props import adj_common as AC
from props import C10, C19
from pyvc import harness as H, tensor, interp as I
from pyvc.interp import Ctx, PyExc
from pyvc.poly import Poly
from pyvc.tensor import XT, GradMode, el_detach

LEVEL = 'other'
TRUSTED = ['pyvc interpreter, torch element models, polynomial kernel (T6)', 'autograd as formal differentiation (T3)',
           'convergence of the stochastic adjoint (Li et al. 2020) (T5)']
ASSUMPTIONS = [T1, T3, T5, T6, T7]
NOT_DECIDED = ['"gradients converge as dt -> 0 / agree with closed forms": limit statement, reduced to the trusted theorem; not proved',
               'all obligations here are bounded instances (3 output times, 2 steps per interval, B=1, d<=2): reported as bounded stand-ins, none is counted as proved']
EXPLANATION = __doc__
BOUND = 'ts=[0,1/2,1], dt=1/4 (2 steps per output interval), B=1, d=m=1; generic in f, g, y0, theta, weights, Brownian path'
CASES = [('ito', 'diagonal', 'milstein', 'milstein'), ('ito', 'additive', 'euler', 'euler'), ('ito', 'general', 'euler', 'euler'),
         ('ito', 'scalar', 'srk', 'euler'), ('stratonovich', 'diagonal', 'midpoint', 'midpoint'), ('stratonovich', 'general', 'heun', 'midpoint'),
         ('stratonovich', 'scalar', 'euler_heun', 'euler_heun'), ('stratonovich', 'additive', 'midpoint', 'heun')]


def prepare(E):
    C19.prepare(E)
    t = E.externs['torch'].attrs
    t['allclose'] = I.ExternFunc('torch.allclose', lambda a, b, **k: all(x == y for x, y in zip(a.a.reshape(-1), b.a.reshape(-1))))
    XT.m_round = lambda self: self._new(np.vectorize(lambda x: Fraction(round(x)), otypes=[object])(self.a))
    AC.install_function_apply(E)
    AC.install_module_parameters(E)


def setup(E, sde_type, noise, d):
    m = d if noise == 'diagonal' else 1
    S = AC.setup(E, noise, sde_type, 1, d, m, eta_limit=1, n_params=1)
    if sde_type == 'ito' and noise in ('diagonal', 'scalar', 'general'):
        from pyvc import poly
        poly.LIMITS['eta'] = 3           # the Ito-corrected adjoint drift differentiates g twice
    S.m = m
    return S


def make_job(sde_type, noise, method, adjoint_method):
    def fn(E, rep, tier):
        rep.bounded_mode = BOUND
        rep.under_contract('torchsde._core.adjoint.sdeint_adjoint', 'torchsde._core.adjoint._SdeintAdjointMethod.forward',
                           'torchsde._core.adjoint._SdeintAdjointMethod.backward', 'torchsde._core.sdeint.sdeint',
                           'torchsde._core.sdeint.check_contract', 'torchsde._core.sdeint.parse_return')
        prepare(E)
        d = 1
        tag = f'C09[{sde_type},{noise},method={method},adjoint_method={adjoint_method}]'
        ts = AC.ts_tensor([0, Fraction(1, 2), 1])
        dt = Fraction(1, 4)
        levy = 'space-time' if method == 'srk' else 'none'
        # ---- (1) same forward values: real sdeint vs real sdeint_adjoint
        S = setup(E, sde_type, noise, d)
        cx = S.cx
        pbm = AC.PathBM((1, S.m), levy)
        if levy != 'none':
            raise NotImplementedError
        bm = pbm.stub()
        y0 = XT(H.sym_array('y0', (1, d)))
        unused = XT(np.array(Poly.var('theta_norg'), dtype=object).reshape(()))      # a parameter that does not require grad
        sdeint = E.module('torchsde._core.sdeint').globals['sdeint']
        sdeint_adjoint = E.module('torchsde._core.adjoint').globals['sdeint_adjoint']
        g0 = GradMode(False)       # forward values only: no derivative tracking needed for the comparison
        g0.__pyvc_enter__(cx)
        ys_a = E.call(sdeint, [S.user, y0, ts], dict(bm=bm, method=method, dt=dt), cx, 0)
        g0.__pyvc_exit__(cx)
        ys_b = E.call(sdeint_adjoint, [S.user, y0, ts], dict(bm=bm, method=method, adjoint_method=adjoint_method, dt=dt,
                                                                adjoint_params=[S.params[0], unused]), cx, 0)
        AC.arr_eq_obligations(rep, f'{tag}/forward.sdeint_adjoint==sdeint', ys_b, ys_a, 'same solution values for the same arguments and Brownian motion')
        ctx = E.last_fn_ctx
        saved = ctx.fields['saved_tensors']
        n_params_saved = len(saved) - 2
        rep.add(f'{tag}/routing.only-parameters-requiring-grad-are-asked-for', 'post', 'discharged' if n_params_saved == 1 else 'refuted', 'pyvc-exec',
                model=None if n_params_saved == 1 else {'saved parameters': n_params_saved})
        # ---- (2) backward structure against the specification
        T_ = 3
        w = np.empty((T_, 1, d), dtype=object)
        for i in range(T_):
            for k in range(d):
                w[i, 0, k] = Poly.var(f'w{i}_{k}')
        weights = XT(w)
        bwd = E.module('torchsde._core.adjoint').globals['_SdeintAdjointMethod'].attrs['backward']
        bwd = bwd.func if isinstance(bwd, I.StaticVal) else bwd
        gm = GradMode(False)
        gm.__pyvc_enter__(cx)
        try:
            pbm.queries.clear()
            res = E.call(bwd, [ctx, weights], {}, cx, 0)
            q_real = list(pbm.queries)
            # specification
            ys = saved[0]
            params = [S.params[0]]
            fsde = ctx.fields['sde']
            a = weights.a[T_ - 1]
            acc = [XT(np.array(Poly(), dtype=object).reshape(()))]
            acls = E.module('torchsde._core.adjoint_sde').globals['AdjointSDE']
            rcls = E.module('torchsde._brownian.derived').globals['ReverseBrownian']
            flatten = E.module('torchsde._core.misc').globals['flatten']
            f2s = E.module('torchsde._core.misc').globals['flat_to_shape']
            state = [XT(ys.a[T_ - 1]), XT(a)] + acc
            shapes = [t.shape for t in state]
            adj = E.instantiate(acls, [fsde, params, shapes], {}, cx, 0)
            rbm = E.instantiate(rcls, [bm], {}, cx, 0)
            pbm.queries.clear()
            for i in range(T_ - 1, 0, -1):
                solver = H.make_solver(E, cx, adjoint_method, adj, rbm, dt=dt)
                aug = XT(E.call(flatten, [state], {}, cx, 0).m_unsqueeze(0).a)
                tsi = XT(np.array([-ts.a[i], -ts.a[i - 1]], dtype=object))
                ex0 = E.call(E.get_attr(solver, 'init_extra_solver_state', cx, 0), [tsi.a[0], aug], {}, cx, 0)
                out, _ = E.call(E.get_attr(solver, 'integrate', cx, 0), [aug, tsi, ex0], {}, cx, 0)
                parts = E.call(f2s, [XT(out.a[1]).m_squeeze(0), shapes], {}, cx, 0)
                state = [XT(ys.a[i - 1]), XT(parts[1].a + weights.a[i - 1])] + list(parts[2:])
            q_spec = list(pbm.queries)
        finally:
            gm.__pyvc_exit__(cx)
        none13 = all(r is None for r in res[:13])
        rep.add(f'{tag}/routing.13-non-tensor-slots-None', 'post', 'discharged' if none13 else 'refuted', 'pyvc-exec')
        grads = list(res[13:])
        ok = len(grads) == 2 and all(g is not None for g in grads)
        rep.add(f'{tag}/routing.one-gradient-for-y0-and-one-per-adjoint-parameter', 'post', 'discharged' if ok else 'refuted', 'pyvc-exec',
                model=None if ok else {'returned': [type(g).__name__ for g in grads]})
        if ok:
            AC.arr_eq_obligations(rep, f'{tag}/backward.grad_y0==specification', grads[0], state[1],
                                  'dL/dy0 = adjoint state after the interval-by-interval reverse solves with jumps grad_ys[i-1]')
            AC.arr_eq_obligations(rep, f'{tag}/backward.grad_theta==specification', grads[1], state[2])
        same_q = len(q_real) == len(q_spec) and all(repr(a_) == repr(b_) for a_, b_ in zip(q_real, q_spec))
        rep.add(f'{tag}/backward.same-brownian-queries-as-specification(reversed, same object)', 'post', 'discharged' if same_q else 'refuted', 'pyvc-exec',
                model=None if same_q else {'real': len(q_real), 'spec': len(q_spec)})
    return Job(f'{sde_type}-{noise}-{method}-{adjoint_method}', fn)


def make_forward_only_job(sde_type, noise, method, adjoint_method):
    """Clause (1) alone for solvers that carry extra state (reversible Heun): the real sdeint_adjoint returns the values (and the extra
    solver state) the real sdeint returns, including the initial extra state computed at (ts[0], y0); the adjoint method handed to the
    backward pass is the one asked for (or the documented default)."""
    def fn(E, rep, tier):
        rep.bounded_mode = BOUND
        rep.under_contract('torchsde._core.adjoint.sdeint_adjoint', 'torchsde._core.adjoint._SdeintAdjointMethod.forward', 'torchsde._core.sdeint.sdeint')
        prepare(E)
        S = setup(E, sde_type, noise, 1)
        cx = S.cx
        pbm = AC.PathBM((1, S.m), 'none')
        bm = pbm.stub()
        y0 = XT(H.sym_array('y0', (1, 1)))
        ts = AC.ts_tensor([Fraction(1, 8), Fraction(5, 8), Fraction(9, 8)])      # ts[0] != 0 and != ts[1]: a wrong initial time is visible
        sdeint = E.module('torchsde._core.sdeint').globals['sdeint']
        sdeint_adjoint = E.module('torchsde._core.adjoint').globals['sdeint_adjoint']
        tag = f'C09[{sde_type},{noise},method={method},adjoint_method={adjoint_method}]'
        g0 = GradMode(False)
        g0.__pyvc_enter__(cx)
        ra = E.call(sdeint, [S.user, y0, ts], dict(bm=bm, method=method, dt=Fraction(1, 4), extra=True), cx, 0)
        g0.__pyvc_exit__(cx)
        rb = E.call(sdeint_adjoint, [S.user, y0, ts], dict(bm=bm, method=method, adjoint_method=adjoint_method, dt=Fraction(1, 4), extra=True,
                                                           adjoint_params=[S.params[0]]), cx, 0)
        AC.arr_eq_obligations(rep, f'{tag}/forward.sdeint_adjoint==sdeint', rb[0], ra[0], 'same solution values for the same arguments and Brownian motion')
        for k, (xa, xb) in enumerate(zip(ra[1], rb[1])):
            AC.arr_eq_obligations(rep, f'{tag}/forward.extra-solver-state[{k}]', xb, xa)
        want_am = adjoint_method if adjoint_method is not None else ('adjoint_reversible_heun' if method == 'reversible_heun' else 'midpoint')
        got_am = E.last_fn_ctx.fields.get('adjoint_method')
        rep.add(f'{tag}/routing.adjoint-method-handed-to-backward', 'post', 'discharged' if got_am == want_am else 'refuted', 'pyvc-exec',
                model=None if got_am == want_am else {'got': got_am, 'want': want_am})
    return Job(f'forward-{sde_type}-{noise}-{method}-{adjoint_method}', fn)


def make_isolation_job(method, adjoint_method):
    """"only the tensors asked for receive gradients": the real sdeint_adjoint is executed on an SDE with two parameters that both require
    grad, with adjoint_params = [theta0].  Gradients reach leaves only through the tensor arguments of _SdeintAdjointMethod.apply for which
    backward returns a gradient (y0, the extra solver state when it requires grad, the adjoint parameters).  Obligation: none of these
    arguments other than the adjoint parameters themselves depends (in the autograd graph) on theta1, the parameter not asked for."""
    def fn(E, rep, tier):
        from pyvc.tensor import autograd_grad
        rep.bounded_mode = BOUND
        rep.under_contract('torchsde._core.adjoint.sdeint_adjoint', 'torchsde._core.adjoint._SdeintAdjointMethod.forward')
        prepare(E)
        S = AC.setup(E, 'diagonal', 'stratonovich', 1, 1, 1, eta_limit=1, n_params=2)
        cx = S.cx
        pbm = AC.PathBM((1, 1), 'none')
        y0 = AC.leaf(H.sym_array('y0', (1, 1)))
        ts = AC.ts_tensor([0, Fraction(1, 2), 1])
        sdeint_adjoint = E.module('torchsde._core.adjoint').globals['sdeint_adjoint']
        E.call(sdeint_adjoint, [S.user, y0, ts], dict(bm=pbm.stub(), method=method, adjoint_method=adjoint_method, dt=Fraction(1, 4),
                                                      adjoint_params=[S.params[0]]), cx, 0)
        ctx = E.last_fn_ctx
        args = ctx.apply_args
        tag = f'C09[stratonovich,diagonal,method={method},adjoint_method={adjoint_method}]/routing'
        asked, other = S.params[0], S.params[1]
        leaks = []
        n_tensor = 0
        for k, a_ in enumerate(args):
            if not isinstance(a_, XT) or a_ is asked or not a_.rg:
                continue
            n_tensor += 1
            r = autograd_grad(E, cx, 0, [a_], [other], grad_outputs=[XT(np.full(a_.a.shape, Fraction(1), dtype=object))], allow_unused=True, retain_graph=True)
            if r[0] is not None and any(not Poly.lift(e).is_zero() for e in r[0].a.reshape(-1)):
                leaks.append(k)
        ok = not leaks and n_tensor >= 1
        rep.add(f'{tag}.no-gradient-path-to-a-parameter-that-was-not-asked-for', 'frame', 'discharged' if ok else 'refuted', 'pyvc-exec+autograd-model',
                model=None if ok else {'apply argument positions that require grad and depend on the other parameter': leaks,
                                       'note': 'positions 13.. are y0, the extra solver state, the adjoint parameters'},
                finding_key='C09/sdeint_adjoint[reversible_heun]/extra-solver-state-carries-graph-to-all-parameters' if method == 'reversible_heun' else None,
                statement='tensor arguments of _SdeintAdjointMethod.apply that receive a gradient from backward do not depend on parameters outside adjoint_params')
    return Job(f'isolation-{method}-{adjoint_method}', fn)


def job_adjoint_params_selection(E, rep, tier):
    """Which parameters sdeint_adjoint hands to the adjoint: None -> all parameters of the SDE; an explicit sequence -> exactly that sequence
    (an empty one means no parameter gradients); parameters that do not require grad are dropped."""
    rep.bounded_mode = BOUND
    rep.under_contract('torchsde._core.adjoint.sdeint_adjoint')
    prepare(E)
    sdeint_adjoint = E.module('torchsde._core.adjoint').globals['sdeint_adjoint']
    for label in ('None', '()', '[theta0]', '[theta1,theta0]'):
        S = AC.setup(E, 'diagonal', 'stratonovich', 1, 1, 1, eta_limit=1, n_params=2)
        cx = S.cx
        # the user's SDE is an nn.Module (required for adjoint_params=None)
        S.user.cls = H.user_class('UserModuleSDE', bases=(E.externs['torch.nn'].attrs['Module'],))
        pbm = AC.PathBM((1, 1), 'none')
        y0 = AC.leaf(H.sym_array('y0', (1, 1)))
        asked = {'None': None, '()': (), '[theta0]': [S.params[0]], '[theta1,theta0]': [S.params[1], S.params[0]]}[label]
        want = list(S.params) if asked is None else list(asked)
        E.call(sdeint_adjoint, [S.user, y0, AC.ts_tensor([0, Fraction(1, 2), 1])],
               dict(bm=pbm.stub(), method='midpoint', adjoint_method='midpoint', dt=Fraction(1, 4), adjoint_params=asked), cx, 0)
        args = E.last_fn_ctx.apply_args
        passed = [a_ for a_ in args[14:] if isinstance(a_, XT)]        # after the 13 non-tensor slots and y0 (no extra solver state for midpoint)
        ok = len(passed) == len(want) and all(p_ is w_ for p_, w_ in zip(passed, want))
        rep.add(f'C09/sdeint_adjoint/routing.adjoint-parameters-are-exactly-those-asked-for[adjoint_params={label}]', 'post', 'discharged' if ok else 'refuted',
                'pyvc-exec', model=None if ok else {'asked': label, 'passed to the adjoint': len(passed), 'expected': len(want)})


def uses_c11(j):
    """The backward-structure obligations above are stated against the real AdjointSDE; that its vector fields are those of the adjoint
    system is the contract C11 puts on AdjointSDE.  Its value clauses are part of the argument for C09 and are discharged here as well
    (the `remains-differentiable` clauses concern double backward, which C09 does not state)."""
    def fn(E, rep, tier):
        j.fn(E, rep, tier)
        keep = []
        for o in rep.obligations:
            if 'remains-differentiable' in o['name']:
                continue
            o['name'] = 'C09/uses:' + o['name']
            keep.append(o)
        rep.obligations[:] = keep
    return Job('uses-C11-' + j.name, fn)


def jobs(tier):
    from props import C11
    out = [make_job(*c) for c in CASES if c[2] != 'srk']
    out += [uses_c11(j) for j in C11.jobs(tier) if tier == 'thorough' or j.name.endswith('nograd')]
    out += [make_isolation_job('midpoint', 'midpoint'), make_isolation_job('reversible_heun', 'adjoint_reversible_heun'),
            make_isolation_job('euler_heun', 'heun'), Job('adjoint-params-selection', job_adjoint_params_selection),
            make_forward_only_job('stratonovich', 'diagonal', 'reversible_heun', 'adjoint_reversible_heun'),
            make_forward_only_job('stratonovich', 'general', 'reversible_heun', None),
            make_forward_only_job('stratonovich', 'diagonal', 'midpoint', None)]
    for noise in ('diagonal', 'general'):
        for pattern in ('all', 'last-zero', 'middle-only'):
            j = C10.make_e2e_job(noise, pattern)
            out.append(j)
    return out


def canaries(tier):
    A = 'torchsde._core.adjoint'
    return [
        {'name': 'grad-jump-dropped', 'job': 'stratonovich-diagonal-midpoint-midpoint',
         'patches': [(A, '            aug_state[1] = aug_state[1] + grad_ys[i - 1]\n', '            aug_state[1] = aug_state[1]\n')]},
        {'name': 'state-not-reset-to-stored-ys', 'job': 'ito-additive-euler-euler',
         'patches': [(A, '            aug_state[0] = ys[i - 1]\n', '')]},
        {'name': 'adjoint-forward-returns-shifted-values', 'job': 'stratonovich-general-heun-midpoint',
         'patches': [(A, '        ctx.save_for_backward(ys, ts, *extras_for_backward, *adjoint_params)\n        return (ys, *extra_solver_state)', '        ctx.save_for_backward(ys, ts, *extras_for_backward, *adjoint_params)\n        return (ys + 1, *extra_solver_state)')]},
        {'name': 'backward-uses-unreversed-brownian', 'job': 'ito-general-euler-euler',
         'patches': [(A, '        reverse_bm = ReverseBrownian(ctx.bm)\n', '        reverse_bm = ReverseBrownian(ReverseBrownian(ctx.bm))\n')]},
        {'name': 'no-parameter-receives-gradients', 'job': 'ito-diagonal-milstein-milstein',
         'patches': [(A, '    adjoint_params = filter(lambda x: x.requires_grad, adjoint_params)\n', '    adjoint_params = filter(lambda x: False, adjoint_params)\n')]},
    ]


def native_replay(ob):
    import re
    from props.base import run_native
    m = re.search(r'method=(\w+),adjoint_method=(\w+)\]/routing.no-gradient-path', ob['name'])
    if m:
        return run_native('c09iso', {'method': m.group(1), 'adjoint_method': m.group(2)})
    if 'routing.adjoint-parameters-are-exactly' in ob['name']:
        return run_native('c09iso', {'method': 'midpoint', 'adjoint_method': 'midpoint'})
    if 'uses:C11' in ob['name']:
        r = run_native('c11')
        if r.get('reproduced'):
            return r
    return run_native('c09')
