"""C13 - chunked (checkpoint-restart) integration equals one-shot integration.

Bit-identity is decided as "the same operations on the same operands" (T1/T2): time arithmetic is
*uninterpreted* here (only congruence), so a grid computed differently in a restarted run (e.g.
from the run's own ts[0] and a step counter) cannot be proved equal even though it is equal over R."""
import time

import z3

from props.base import Job, T1, T2, T6
from props import sde_common as C
from props import C02
from pyvc.contract import verify
from pyvc import interp as I
from pyvc.interp import PyExc
from contracts import integrate as CI
from contracts import integrate_loops as CL
from props.C12 import setup_engine, F_INTEGRATE

LEVEL = 'proof'
TRUSTED = ['pyvc interpreter (T6)', 'z3 5.1.0']
ASSUMPTIONS = [T1, T2, T6, 'repeated Brownian queries return identical values (imported from C05)',
               'fadd(a, dt) > a for dt > 0 (no float collapse of curr_t + dt)',
               'final interpolation at t = t1 returns y1 exactly (0*y0 + 1*y1 = y1 at the bit level is T1)']
EXPLANATION = ('(1) frame: every real solver step() is executed and shown to leave the solver object untouched; (2) integrate() '
               'verified with uninterpreted time arithmetic: the grid is the iteration of fadd(.,dt) from ts[0], the carried state '
               'is (t, y, extra); (3) relational loop-body obligation: two executions agreeing on (curr_t, curr_y, curr_extra), self '
               'and ts[-1] but on nothing else agree afterwards and issue the same step calls (no hidden state); '
               '(4) the chunk lemma by induction over steps, discharged by z3 from the postcondition of integrate.')


def job_integrate_ut(E, rep, tier):
    rep.under_contract(F_INTEGRATE)
    setup_engine(E)
    res = verify(E, CL.IntegrateFixed(uninterpreted_time=True), label='C13/integrate[fixed,uninterpreted-time]')
    rep.take(res['obligations'])


def job_relational(E, rep, tier):
    rep.under_contract(F_INTEGRATE)
    setup_engine(E)
    res = verify(E, CL.IntegrateRelational(), label='C13/integrate[relational]')
    obs = [o for o in res['obligations'] if '/rel.' in o.name or o.status != 'discharged']
    rep.take(obs)


def job_frames(E, rep, tier):
    """Each real step(): the solver object, its options and the SDE wrapper are not written."""
    for (method, st, noise, opts) in C02.configs():
        if noise not in ('diagonal', 'additive') and method != 'reversible_heun':
            continue
        tag = f'C13/frame.step-writes-nothing[{method},{st},{noise}{",grad_free" if opts else ""}]'
        rep.under_contract(*C02.SOLVER_FILES[method])
        try:
            S = C.setup(E, d=1, m=1, B=1, noise=noise, sde_type=st, N=3, levy=C02.levy_for(method))
            from pyvc import harness as H
            solver = H.make_solver(E, S.cx, method, S.sde, S.bm, options=opts)
        except PyExc as e:
            if e.cls == 'ValueError':
                continue
            raise
        def snap(o):
            return {k: (id(v), repr(v) if isinstance(v, (dict, list, str, int, bool)) else None) for k, v in o.fields.items()}
        before = (snap(solver), snap(S.sde), dict(solver.fields['options']))
        extra = E.call(E.get_attr(solver, 'init_extra_solver_state', S.cx, 0), [S.t0, S.y0], {}, S.cx, 0)
        nq0 = len(S.bm.queries)
        r = E.call(E.get_attr(solver, 'step', S.cx, 0), [S.t0, S.t0 + S.dt, S.y0, extra], {}, S.cx, 0)
        after = (snap(solver), snap(S.sde), dict(solver.fields['options']))
        ok = before == after
        rep.add(tag, 'frame', 'discharged' if ok else 'refuted', 'pyvc-exec',
                statement='solver.__dict__, solver.options and the SDE wrapper are identical before and after step()',
                model=None if ok else {'changed': [k for k in after[0] if after[0].get(k) != before[0].get(k)]})
        q = S.bm.queries[nq0:]
        one = len(q) == 1 and repr(q[0][0]) == repr(S.t0) and repr(q[0][1]) == repr(S.t0 + S.dt)
        rep.add(tag.replace('frame.step-writes-nothing', 'frame.one-bm-query(t0,t1)'), 'frame', 'discharged' if one else 'refuted',
                'pyvc-exec', statement='step() queries the Brownian motion exactly once, over (t0, t1)',
                model=None if one else {'queries': repr(q)})
        shape_ok = isinstance(r, tuple) and len(r) == 2
        rep.add(tag.replace('frame.step-writes-nothing', 'post.returns(y1,extra1)'), 'post', 'discharged' if shape_ok else 'refuted', 'pyvc-exec')


def job_chunk_lemma(E, rep, tier):
    Z, R = z3.IntSort(), z3.RealSort()
    G, SYf, SEf = CL.G, CL.SY, CL.SE
    G2 = z3.Function('G2', Z, R)
    SY2 = z3.Function('SY2', Z, CI.TS)
    SE2 = z3.Function('SE2', Z, CI.XS)
    G1 = z3.Function('G1', Z, R)
    j, k1 = z3.Ints('j k1')
    dt, t2 = z3.Reals('dt t2')
    fadd = CI.FADD

    def mn(a, b):
        return z3.If(b < a, b, a)

    def prove(name, hyps, goal):
        t0 = time.time()
        s = z3.Solver()
        s.set('timeout', 30000)
        for h in hyps:
            s.add(h)
        s.add(z3.Not(goal))
        r = s.check()
        st = 'discharged' if r == z3.unsat else ('refuted' if r == z3.sat else 'unknown')
        rep.add('C13/lemma.' + name, 'lemma', st, 'z3-' + z3.get_version_string(), time.time() - t0,
                model=str(s.model()) if r == z3.sat else None, statement=str(goal)[:300])
    i = z3.Int('i')
    defG = z3.ForAll([i], z3.Implies(i >= 0, z3.And(
        G(i + 1) == mn(fadd(G(i), dt), t2),
        SYf(i + 1) == CI.STEP_Y(G(i), G(i + 1), SYf(i), SEf(i)), SEf(i + 1) == CI.STEP_E(G(i), G(i + 1), SYf(i), SEf(i)))),
        patterns=[G(i + 1)])
    defG2 = z3.ForAll([i], z3.Implies(i >= 0, z3.And(
        G2(i + 1) == mn(fadd(G2(i), dt), t2),
        SY2(i + 1) == CI.STEP_Y(G2(i), G2(i + 1), SY2(i), SE2(i)), SE2(i + 1) == CI.STEP_E(G2(i), G2(i + 1), SY2(i), SE2(i)))),
        patterns=[G2(i + 1)])
    base2 = z3.And(G2(0) == G(k1), SY2(0) == SYf(k1), SE2(0) == SEf(k1), k1 >= 0)
    prove('chunk2.base', [base2], z3.And(G2(0) == G(k1 + 0), SY2(0) == SYf(k1 + 0), SE2(0) == SEf(k1 + 0)))
    prove('chunk2.step', [defG, defG2, k1 >= 0, j >= 0, G2(j) == G(k1 + j), SY2(j) == SYf(k1 + j), SE2(j) == SEf(k1 + j)],
          z3.And(G2(j + 1) == G(k1 + j + 1), SY2(j + 1) == SYf(k1 + j + 1), SE2(j + 1) == SEf(k1 + j + 1)))
    # chunk 1 over [t0, t1] with t1 = G(k1) < t2: the clip to t1 is inactive before k1
    t1 = G(k1)
    mono = z3.ForAll([i, j], z3.Implies(z3.And(0 <= i, i <= j), G(i) <= G(j)), patterns=[z3.MultiPattern(G(i), G(j))])
    defG1 = z3.ForAll([i], z3.Implies(i >= 0, G1(i + 1) == mn(fadd(G1(i), dt), t1)), patterns=[G1(i + 1)])
    prove('chunk1.grid.step', [defG, defG1, mono, k1 >= 1, t1 < t2, j >= 0, j + 1 <= k1, G1(j) == G(j)], G1(j + 1) == G(j + 1))
    # outputs at common times agree: same kappa, same grid states => same INTERP term
    tau = z3.Real('tau')
    kap = z3.Int('kap')
    prove('chunk2.outputs', [k1 >= 0, kap >= 1,
                             z3.ForAll([i], z3.Implies(i >= 0, z3.And(G2(i) == G(k1 + i), SY2(i) == SYf(k1 + i))))],
          CI.INTERP(G2(kap - 1), SY2(kap - 1), G2(kap), SY2(kap), tau) ==
          CI.INTERP(G(k1 + kap - 1), SYf(k1 + kap - 1), G(k1 + kap), SYf(k1 + kap), tau))


def job_interp_endpoint(E, rep, tier):
    """The state handed to the next chunk is ys[-1] = linear_interp(prev_t, prev_y, curr_t, curr_y, t = curr_t).  For the restart to be
    bit-identical this must be curr_y *exactly*, in floating point.  The real body is executed with uninterpreted floating-point
    operations on both times and values; the only facts used are IEEE identities for finite operands:
        x - x = 0;   0 / x = 0 and x / x = 1 for x != 0;   0 * y = 0;   1 * y = y;   0 + y = y = y + 0;   t0 < t1 => t1 - t0 != 0.
    (x * (1/x) = 1 is NOT an IEEE identity.)"""
    from pyvc.interp import Ctx
    rep.under_contract('torchsde._core.interp.linear_interp')
    fn = E.function('torchsde._core.interp.linear_interp')
    def ieee_instances(exprs):
        """Ground instances of the IEEE identities for every floating-point operation occurring in exprs (finite, complete for these terms)."""
        out, seen, stack = [], set(), list(exprs)
        while stack:
            e = stack.pop()
            if e.get_id() in seen:
                continue
            seen.add(e.get_id())
            if z3.is_app(e):
                stack.extend(e.children())
                d = e.decl()
                if e.num_args() == 2:
                    a, b = e.arg(0), e.arg(1)
                    if z3.eq(d, CI.FSUB):
                        out += [z3.Implies(a == b, e == 0), z3.Implies(a != b, e != 0)]
                    elif z3.eq(d, CI.FDIV):
                        out += [z3.Implies(z3.And(a == 0, b != 0), e == 0), z3.Implies(z3.And(a == b, b != 0), e == 1)]
                    elif z3.eq(d, CI.FMUL):
                        out += [z3.Implies(a == 0, e == 0), z3.Implies(b == 0, e == 0), z3.Implies(a == 1, e == b), z3.Implies(b == 1, e == a)]
                    elif z3.eq(d, CI.FADD):
                        out += [z3.Implies(a == 0, e == b), z3.Implies(b == 0, e == a)]
        return out
    for which in ('t=t1', 't=t0'):
        cx = Ctx(E, [])
        t0, t1 = CI.UT(cx.fresh('t0')), CI.UT(cx.fresh('t1'))
        y0, y1 = CI.UT(cx.fresh('y0')), CI.UT(cx.fresh('y1'))
        cx.assume(t0.e < t1.e)
        t = t1 if which == 't=t1' else t0
        try:
            r = E.call_function(fn, [], dict(t0=t0, y0=y0, t1=t1, y1=y1, t=t), cx, 0, force_body=True)
        except PyExc as e:
            rep.add(f'C13/linear_interp[float,{which}]/no-raise', 'no-raise', 'refuted', 'pyvc-exec', model={'raised': f'{e.cls}: {e.msg}'})
            continue
        want = y1.e if which == 't=t1' else y0.e
        s_ = z3.Solver()
        s_.set('timeout', 20000)
        from pyvc.values import to_z3 as _tz
        for f in cx.pc:
            s_.add(f)
        for ax in ieee_instances(list(cx.pc) + [_tz(r), want]):
            s_.add(ax)
        s_.add(_tz(r) != want)
        t_0 = time.time()
        res = s_.check()
        st = 'discharged' if res == z3.unsat else ('refuted' if res == z3.sat else 'unknown')
        rep.add(f'C13/linear_interp[float,{which}]/post.returns-the-end-state-exactly', 'post', st, 'z3-' + z3.get_version_string(), time.time() - t_0,
                model=None if st != 'refuted' else {'result term': str(z3.simplify(_tz(r)))[:200]},
                statement='with uninterpreted floating-point operations and the IEEE identities only, linear_interp at an end point is that end state')


def jobs(tier):
    return [Job('integrate-uninterpreted-time', job_integrate_ut), Job('relational-loop-body', job_relational),
            Job('step-frames', job_frames), Job('chunk-lemma', job_chunk_lemma), Job('interp-endpoint-float', job_interp_endpoint)]


def canaries(tier):
    return [
        {'name': 'grid-from-ts0-and-counter', 'job': 'relational-loop-body',
         'patches': [('torchsde._core.base_solver', '        for out_t in ts[1:]:\n', '        num_steps = 0\n        for out_t in ts[1:]:\n'),
                     ('torchsde._core.base_solver', '                else:\n                    prev_t, prev_y = curr_t, curr_y\n',
                      '                else:\n                    num_steps += 1\n                    next_t = min(ts[0] + num_steps * step_size, ts[-1])\n                    prev_t, prev_y = curr_t, curr_y\n')]},
        {'name': 'step-depends-on-out_t', 'job': 'relational-loop-body',
         'patches': [('torchsde._core.base_solver', 'next_t = min(curr_t + step_size, ts[-1])', 'next_t = min(curr_t + step_size, out_t)')]},
        {'name': 'solver-caches-state', 'job': 'step-frames',
         'patches': [('torchsde._core.methods.euler', '        y1 = y0 + f * dt + g_prod\n', '        y1 = y0 + f * dt + g_prod\n        self._last = y1\n')]},
    ]


def native_replay(ob):
    from props.base import run_native
    return run_native('c13')
