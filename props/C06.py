"""C06 - seeded reproducibility; query-order independence in dyadic-tree mode.

(1) determinism: the Brownian code contains no nondeterministic construct except np.random.randint under `entropy is None`;
    every node value is a function of stable fields and noise drawn from seeds SEED(entropy, spawn_key, depth, pool_size, word);
(2) dyadic split points depend only on the node: _split in halfway_tree mode splits at round((start+end)/2) whatever point was
    requested (postcondition of the real _split), so every node ever created is identified by its path from the top;
(3) BrownianTree builds a dyadic tree with the given entropy; wrappers never write into the wrapped object (in-place guard).
The cross-history equality of *decompositions* is not decided (see NOT_DECIDED)."""
import ast

from props.base import Job, T1, T2, T6
from props import tree_jobs as TJ
from props import wrapper_jobs as WJ
from props import ctor_jobs as CJ
from props import history_jobs as HJ

LEVEL = 'proof'
TRUSTED = ['pyvc interpreter + heap model (T6)', 'z3 5.1.0']
ASSUMPTIONS = [T1, T2, T6]
NOT_DECIDED = ['"different entropies give different paths" is a statement about numpy SeedSequence hashing: no contract on torchsde code expresses it',
               'history independence of the dyadic *decomposition* of a query (same node list whatever was queried before) is not proved (it needs the '
               'laminar-family induction); the per-node facts it rests on (split point, key, seeds, value are functions of the node path, entropy and '
               'options) are proved, and the closing step is served by a BOUNDED stand-in (targets on the 1/8 grid, histories of at most 2 queries '
               'from a pool of 6, tol = 1e-3), reported under bounded_stand_ins and not counted as proved']
EXPLANATION = __doc__
BI = 'torchsde._brownian.brownian_interval'


def job_nondeterminism(E, rep, tier):
    """Syntactic scan of the Brownian modules for sources of nondeterminism."""
    allowed = {('np', 'random', 'SeedSequence'), ('np', 'random', 'randint')}
    for modname in (BI, 'torchsde._brownian.derived'):
        info = E.repo.modules[modname]
        bad = []
        randint_lines = []
        for node in ast.walk(info.tree):
            if isinstance(node, ast.Attribute):
                chain = []
                x = node
                while isinstance(x, ast.Attribute):
                    chain.append(x.attr)
                    x = x.value
                if isinstance(x, ast.Name):
                    chain.append(x.id)
                chain = tuple(reversed(chain))
                if len(chain) >= 2 and chain[0] in ('np', 'numpy', 'random', 'time', 'os', 'uuid', 'secrets') and 'random' in chain or chain[0] in ('time', 'uuid', 'secrets'):
                    if chain[:3] not in allowed and chain not in allowed:
                        if not any(chain == a[:len(chain)] for a in allowed):
                            bad.append((node.lineno, '.'.join(chain)))
                    if chain[:3] == ('np', 'random', 'randint'):
                        randint_lines.append(node.lineno)
                if chain[:2] == ('torch', 'randn') or chain[:2] == ('torch', 'rand') or chain[:2] == ('torch', 'normal'):
                    call = None
                    for c in ast.walk(info.tree):
                        if isinstance(c, ast.Call) and c.func is node:
                            call = c
                    if call is None or not any(k.arg == 'generator' for k in call.keywords):
                        bad.append((node.lineno, '.'.join(chain) + ' without generator='))
            if isinstance(node, ast.Call) and isinstance(node.func, ast.Name) and node.func.id in ('hash', 'id'):
                bad.append((node.lineno, node.func.id + '()'))
            if isinstance(node, (ast.Set, ast.SetComp)):
                bad.append((node.lineno, 'set literal (iteration order)'))
        short = modname.split('.')[-1]
        rep.add(f'C06/{short}/no-nondeterministic-construct', 'syntactic', 'discharged' if not bad else 'refuted', 'ast',
                model=None if not bad else {'constructs': [f'L{l}: {c}' for l, c in bad]},
                statement='no use of global RNGs, clocks, hash/id or set iteration; torch.randn always with an explicit seeded generator')
        if short == 'brownian_interval':
            # np.random.randint must be guarded by `if entropy is None`
            guarded = True
            for node in ast.walk(info.tree):
                if isinstance(node, ast.If):
                    t = node.test
                    is_guard = (isinstance(t, ast.Compare) and isinstance(t.left, ast.Name) and t.left.id == 'entropy' and
                                isinstance(t.ops[0], ast.Is) and isinstance(t.comparators[0], ast.Constant) and t.comparators[0].value is None)
                    if is_guard:
                        inside = {n.lineno for b in node.body for n in ast.walk(b) if hasattr(n, 'lineno')}
                        randint_lines = [l for l in randint_lines if l not in inside]
            rep.add('C06/brownian_interval/randint-only-when-entropy-is-None', 'syntactic', 'discharged' if not randint_lines else 'refuted', 'ast',
                    model=None if not randint_lines else {'unguarded lines': randint_lines})


def jobs(tier):
    P = 'C06'
    return [Job('nondeterminism-scan', job_nondeterminism), CJ.job_constructor(P), CJ.job_tree_constructor(P),
            TJ.make(P, 'split', False), TJ.make(P, 'split_exact', False), TJ.job_split_algebra(P, ()), WJ.job_wrappers(P),
            HJ.job_dyadic_grid(P, (False,)), HJ.job_dyadic_grid(P, (True,))]


def canaries(tier):
    B = BI
    return [
        {'name': 'dyadic-split-at-requested-point', 'job': 'split', 'patches': [(B, '            self._split_exact(0.5 * (self._end + self._start))\n', '            self._split_exact(midway)\n')]},
        {'name': 'tree-wrapper-adds-w0-in-place', 'job': 'wrappers', 'patches': [('torchsde._brownian.derived', "                                                            halfway_tree=True,\n                                                            W=W)\n        super(BrownianTree, self).__init__()\n\n    def __call__(self, t, tb=None, return_U=False, return_A=False):\n        out = self._interval(t, tb, return_U=return_U, return_A=return_A)\n        if tb is None and not return_U and not return_A:\n            out = out + self._w0\n", "                                                            halfway_tree=True,\n                                                            W=W)\n        super(BrownianTree, self).__init__()\n\n    def __call__(self, t, tb=None, return_U=False, return_A=False):\n        out = self._interval(t, tb, return_U=return_U, return_A=return_A)\n        if tb is None and not return_U and not return_A:\n            out += self._w0\n")]},
        {'name': 'tree-not-dyadic', 'job': 'tree-constructor', 'patches': [('torchsde._brownian.derived', 'halfway_tree=True,\n', 'halfway_tree=False,\n')]},
        {'name': 'unseeded-noise', 'job': 'nondeterminism-scan', 'patches': [(B, 'return torch.randn(size, dtype=dtype, device=device, generator=generator)', 'return torch.randn(size, dtype=dtype, device=device)')]},
        {'name': 'entropy-ignored', 'job': 'constructor', 'patches': [(B, 'generator = np.random.SeedSequence(entropy=entropy, pool_size=pool_size)\n        initial_W_seed', 'generator = np.random.SeedSequence(entropy=0, pool_size=pool_size)\n        initial_W_seed')]},
    ]


def native_replay(ob):
    from props.base import run_native
    return run_native('c06')
