"""C08 - sdeint is differentiable: backprop equals the derivative of the numerical solution.

That autograd differentiates a traced program correctly is PyTorch's theorem (T3).  What torchsde can break -- and what is
decided here -- is whether the traced program *is* the numerical solution: every real solver step (and a bounded fixed-step /
adaptive integrate) is executed twice on generic smooth f, g with parameters, once under the faithful autograd model (detach, no_grad
and create_graph=False cut dependence) and once under ideal differentiation (every value keeps its full dependence on the leaves):
obligation: the first-order dependence of the result on y0 and on every parameter is identical."""
from fractions import Fraction

import numpy as np

from props.base import Job, T1, T3, T6, T7
from props import adj_common as AC
from props import x_common as X
from pyvc import harness as H, tensor, poly, interp as I
from pyvc.interp import Ctx, PyExc
from pyvc.poly import Poly
from pyvc.tensor import XT, el_detach

LEVEL = 'proof'
TRUSTED = ['pyvc interpreter, torch element models, polynomial kernel (T6)', 'autograd as formal differentiation (T3)']
ASSUMPTIONS = [T1, T3, T6, T7, 'agreement with finite differences to a tolerance is T3 + floating point; adaptive stepping is covered away from accept/reject '
               'boundaries by construction (the accept/reject pattern is fixed per path)']
NOT_DECIDED = ['dimension-bounded (B=1, d=2, m<=2); integrate-level checks are bounded (2 output intervals, 2-3 steps) and not counted as proved']
EXPLANATION = __doc__
CONFIGS = []
for m_ in X.METHODS:
    for n_ in ('diagonal', 'scalar', 'additive', 'general'):
        if m_ in ('milstein', 'srk') and n_ == 'general':
            continue
        CONFIGS.append((m_, n_, None))
CONFIGS += [('milstein', 'diagonal', {'grad_free': True}), ('milstein', 'scalar', {'grad_free': True})]


def build(E, noise, st, B, d, m, levy, y0_requires_grad, transparent, eta_limit=2):
    S = AC.setup(E, noise, st, B, d, m, eta_limit=eta_limit, n_params=1)
    poly.RELATIONS['sdt'] = (2, {'dt': 1})
    tensor.STATE['sqrt_table'] = [(Poly.var('dt'), Poly.var('sdt'))]
    tensor.STATE['transparent'] = transparent
    S.t0, S.dt = Poly.var('t0'), Poly.var('dt')
    S.dW, S.U, S.A = X.brownian(S, B, m, levy)
    S.levy = levy
    S.bm = H.BMStub((B, m), levy, lambda ta, tb: (S.dW, S.U, S.A))
    y0 = H.sym_array('y0', (B, d))
    S.y0 = AC.leaf(y0) if y0_requires_grad else XT(y0)
    S.leaves = list(S.params[0].eta) + (list(S.y0.eta) if y0_requires_grad else [])
    return S


def first_order(x, leaves):
    """value and first-order coefficients w.r.t. the original leaves (all other perturbation variables set to zero)"""
    out = []
    for e in x.a.reshape(-1):
        p = Poly.lift(e)
        val = el_detach(p)
        ders = [el_detach(p.diff(nm)) for nm in leaves]
        out.append((val, ders))
    return out


def compare(rep, tag, got, want, leaves, names):
    a, b = first_order(got, leaves), first_order(want, leaves)
    bad = None
    for (va, da), (vb, db) in zip(a, b):
        if not (va - vb).is_zero():
            bad = ('value', va - vb)
            break
        for nm, x, y in zip(names, da, db):
            if not (x - y).is_zero():
                bad = (f'd/d{nm}', x - y)
                break
        if bad:
            break
    rep.poly_zero(tag, bad[1] if bad else Poly(), statement='backprop through the real code == derivative of the value function' +
                  (f' (first mismatch: {bad[0]})' if bad else ''))


def make_step_job(method, noise, opts):
    def fn(E, rep, tier):
        B, d = 1, 2
        m = 1 if noise == 'scalar' else 2
        sts = ['ito', 'stratonovich'] if method == 'milstein' else [X.SDE_TYPE[method]]
        for st in sts:
            for y0rg in (True, False):
                tag = f'C08/{method}{"[grad_free]" if opts else ""}[{st},{noise},y0.requires_grad={y0rg}]'
                res = []
                for transparent in (False, True):
                    inner_autograd = (method == 'milstein' and not opts) or method == 'log_ode'
                    S = build(E, noise, st, B, d, m, X.levy_for(method), y0rg, transparent, eta_limit=2 if inner_autograd else 1)
                    try:
                        solver = H.make_solver(E, S.cx, method, S.sde, S.bm, options=opts)
                    except PyExc as e:
                        if e.cls == 'ValueError':
                            res = None
                            break
                        raise
                    extra = E.call(E.get_attr(solver, 'init_extra_solver_state', S.cx, 0), [S.t0, S.y0], {}, S.cx, 0)
                    y1, ex1 = E.call(E.get_attr(solver, 'step', S.cx, 0), [S.t0, S.t0 + S.dt, S.y0, extra], {}, S.cx, 0)
                    res.append((y1, ex1, S.leaves))
                    tensor.STATE['transparent'] = False
                if res is None:
                    continue
                rep.bounded.append({'what': tag, 'bound': f'dimension-bounded B={B}, d={d}, m={m}'})
                names = ['theta'] + ([f'y0[{i}]' for i in range(B * d)] if y0rg else [])
                compare(rep, f'{tag}/step.y1', res[0][0], res[1][0], res[0][2], names)
                for k, (ea, eb) in enumerate(zip(res[0][1], res[1][1])):
                    compare(rep, f'{tag}/step.extra[{k}]', ea, eb, res[0][2], names)
    return Job(f'step-{method}-{noise}{"-gf" if opts else ""}', fn)


def make_integrate_job(method, noise, adaptive):
    """Bounded stand-in: the real integrate() over 2 output intervals (fixed: 3 steps; adaptive: scripted accept/reject pattern)."""
    def fn(E, rep, tier):
        from contracts import integrate as CI
        B, d = 1, 1
        m = 1
        st = X.SDE_TYPE[method]
        rep.bounded_mode = ('integrate over ts=[0,1], dt=1, scripted error estimates (reject, accept, accept): two accepted steps' if adaptive else 'integrate over ts=[0,3/4,1], dt=1/2: two steps, one interpolated output') + ', B=d=m=1'
        res = []
        for transparent in (False, True):
            S = build(E, noise, st, B, d, m, X.levy_for(method), False, transparent, eta_limit=1)
            pbm = AC.PathBM((B, m), S.levy)
            ts = AC.ts_tensor([0, 1]) if adaptive else AC.ts_tensor([0, Fraction(3, 4), 1])
            solver = H.make_solver(E, S.cx, method, S.sde, pbm.stub(), dt=Fraction(1) if adaptive else Fraction(1, 2), adaptive=adaptive, dt_min=Fraction(1, 100))
            if adaptive:
                script = [Fraction(3)] + [Fraction(1, 2)] * 40

                class ScriptedError:
                    qualname = 'torchsde._core.adaptive_stepping.compute_error'

                    def apply(self, E_, cx, a, lineno):
                        return script.pop(0)

                class ScriptedStep:
                    qualname = 'torchsde._core.adaptive_stepping.update_step_size'

                    def apply(self, E_, cx, a, lineno):
                        err, prev = a['error_estimate'], a['prev_step_size']
                        return (prev * (Fraction(1, 2) if err > 1 else Fraction(4)), Fraction(1))
                E.contracts[ScriptedError.qualname] = ScriptedError()
                E.contracts[ScriptedStep.qualname] = ScriptedStep()
            extra = E.call(E.get_attr(solver, 'init_extra_solver_state', S.cx, 0), [ts.a[0], S.y0], {}, S.cx, 0)
            ys, ex = E.call(E.get_attr(solver, 'integrate', S.cx, 0), [S.y0, ts, extra], {}, S.cx, 0)
            res.append((ys, S.leaves))
            tensor.STATE['transparent'] = False
            E.contracts.pop('torchsde._core.adaptive_stepping.compute_error', None)
            E.contracts.pop('torchsde._core.adaptive_stepping.update_step_size', None)
        compare(rep, f'C08/integrate[{method},{noise},adaptive={adaptive}]/ys', res[0][0], res[1][0], res[0][1], ['theta'])
    return Job(f'integrate-{method}-{noise}-{"adaptive" if adaptive else "fixed"}', fn)


def job_logqp_diagonal(E, rep, tier):
    """logqp=True with diagonal noise: the drift of the log-ratio column, 0.5 |(f - h) / g|^2, is computed through misc.stable_division.  Its real
    body is executed *inside its guard* (|g_i| > 1e-7, the assumption recorded for C18): the comparison is taken to hold, so torch.where selects
    the denominator itself -- with whatever autograd history the code leaves on it.  Obligation: faithful backprop == ideal differentiation for
    the value and its first-order dependence on the parameter and on y."""
    from pyvc import jets
    rep.under_contract('torchsde._core.base_sde.SDELogqp.f_diagonal', 'torchsde._core.base_sde.SDELogqp.f_and_g_diagonal', 'torchsde._core.misc.stable_division')
    B, d = 1, 2
    res = []
    saved_cmp, saved_abs, saved_sign, saved_div = XT._cmp, XT.m_abs, XT.m_sign, XT.__truediv__

    def series_div(self, o):
        """a / b for b = b0 + n with b0 free of perturbation variables (a monomial) and n nilpotent at the truncation order:
        a / b = a / b0 * sum_k (-n / b0)^k  (exact in the truncated algebra)."""
        if not isinstance(o, XT):
            return saved_div(self, o)
        aa, bb = np.broadcast_arrays(self.a, o.a)
        out = np.empty(aa.shape, dtype=object)
        L = poly.LIMITS.get('eta', 1)
        for idx in np.ndindex(*aa.shape):
            b_ = Poly.lift(bb[idx])
            b0 = el_detach(b_)
            n_ = b_ - b0
            inv = Poly.const(1) / b0
            acc, term = Poly.const(1), Poly.const(1)
            for _k in range(L):
                term = term * (n_ * inv) * (-1)
                acc = acc + term
            out[idx] = Poly.lift(aa[idx]) * inv * acc
        return self._new(out, o)
    try:
        XT.__truediv__ = series_div
        XT._cmp = lambda self, o, f: XT(np.full(np.broadcast(self.a, tensor.as_array(o)).shape, True, dtype=object))     # inside the guard
        XT.m_abs = lambda self: self._new(np.vectorize(lambda e: Poly.var('absb'), otypes=[object])(self.a))
        XT.m_sign = lambda self: self._new(np.vectorize(lambda e: Poly.var('sgnb'), otypes=[object])(self.a))
        for transparent in (False, True):
            S = build(E, 'diagonal', 'ito', B, d, d, 'none', True, transparent, eta_limit=1)
            hfun = jets.DynJetFunction('Hh', d, (d,), params=S.params)
            user = H.make_user_sde('diagonal', 'ito', {'f': S.f, 'g': S.g, 'h': hfun})
            cls = E.module('torchsde._core.base_sde').globals['SDELogqp']
            lq = E.instantiate(cls, [user], {}, S.cx, 0)
            l0 = XT(H.sym_array('l0', (B, 1)))
            yaug = XT(np.concatenate([S.y0.a, l0.a], axis=1), rg=True, leaf=False)
            yaug.eta = None
            f1 = E.call(E.get_attr(lq, 'f', S.cx, 0), [S.t0, yaug], {}, S.cx, 0)
            f2, g2 = E.call(E.get_attr(lq, 'f_and_g', S.cx, 0), [S.t0, yaug], {}, S.cx, 0)
            res.append((f1, f2, S.leaves))
            tensor.STATE['transparent'] = False
    finally:
        XT._cmp, XT.m_abs, XT.m_sign, XT.__truediv__ = saved_cmp, saved_abs, saved_sign, saved_div
        tensor.STATE['transparent'] = False
    names = ['theta'] + [f'y0[{i}]' for i in range(B * d)]
    tag = 'C08/SDELogqp[diagonal]'
    rep.bounded.append({'what': tag, 'bound': f'dimension-bounded B={B}, d={d}; stable_division inside its guard'})
    compare(rep, f'{tag}/f.log-ratio-drift', res[0][0], res[1][0], res[0][2], names)
    compare(rep, f'{tag}/f_and_g.log-ratio-drift', res[0][1], res[1][1], res[0][2], names)


def jobs(tier):
    out = [make_step_job(m, n, o) for (m, n, o) in CONFIGS]
    out.append(Job('logqp-diagonal', job_logqp_diagonal))
    for method, noise in (('euler', 'diagonal'), ('midpoint', 'general'), ('reversible_heun', 'diagonal')):
        out.append(make_integrate_job(method, noise, False))
        if method != 'midpoint':
            out.append(make_integrate_job(method, noise, True))
    return out


def canaries(tier):
    BS = 'torchsde._core.base_sde'
    return [
        {'name': 'create_graph-tied-to-y.requires_grad', 'job': 'step-milstein-diagonal',
         'patches': [(BS, "    def g_prod_and_gdg_prod_diagonal(self, t, y, v1, v2):\n        requires_grad = torch.is_grad_enabled()\n", "    def g_prod_and_gdg_prod_diagonal(self, t, y, v1, v2):\n        requires_grad = torch.is_grad_enabled() and y.requires_grad\n")]},
        {'name': 'detach-in-heun-predictor', 'job': 'step-heun-general',
         'patches': [('torchsde._core.methods.heun', '        y0_prime = y0 + dt * f + g_prod\n', '        y0_prime = (y0 + dt * f + g_prod).detach()\n')]},
        {'name': 'value-computed-under-no_grad', 'job': 'integrate-euler-diagonal-adaptive',
         'patches': [('torchsde._core.base_solver', "                    # Accept step.\n                    if error_estimate <= 1 or step_size <= self.dt_min:\n                        prev_t, prev_y = curr_t, curr_y\n                        curr_t, curr_y, curr_extra = next_t, next_y, next_extra\n",
                      "                    # Accept step.\n                    if error_estimate <= 1 or step_size <= self.dt_min:\n                        prev_t, prev_y = curr_t, curr_y\n                        with torch.no_grad():\n                            next_y = next_y + 0\n                        curr_t, curr_y, curr_extra = next_t, next_y, next_extra\n")]},
        {'name': 'value-computed-under-no_grad-fixed', 'job': 'integrate-midpoint-general-fixed',
         'patches': [('torchsde._core.base_solver', "                    curr_y, curr_extra = self.step(curr_t, next_t, curr_y, curr_extra)\n", "                    with torch.no_grad():\n                        curr_y, curr_extra = self.step(curr_t, next_t, curr_y, curr_extra)\n")]},
        {'name': 'jvp-inner-graph-dropped', 'job': 'step-milstein-scalar',
         'patches': [('torchsde._core.misc', "    _vjp = torch.autograd.grad(outputs, inputs, grad_outputs=dummy_outputs, create_graph=True, allow_unused=True)", "    _vjp = torch.autograd.grad(outputs, inputs, grad_outputs=dummy_outputs, create_graph=False, allow_unused=True)")]},
    ]


def native_replay(ob):
    from props.base import run_native
    return run_native('c08')
