"""Shared scaffolding for property modules."""
import random
from fractions import Fraction

import z3

from pyvc.interp import Engine, Obligation
from pyvc.loader import Repo, patched_repo
from pyvc.poly import Poly
from pyvc import tensor

T1 = 'T1 machine arithmetic treated as mathematics: IEEE floats are reals, tensor dtypes ignored, no rounding'
T2 = 'T2 determinism of primitives: torch/numpy primitives, torch.Generator.manual_seed + randn and numpy SeedSequence.generate_state are functions of their arguments'
T3 = 'T3 autograd: torch.autograd.grad returns the vector-Jacobian product of the traced computation, differentiable again iff create_graph; detach() keeps the value and drops history (modelled in Taylor mode with formal perturbation variables)'
T4 = 'T4 randomness: torch.randn with a fresh seed yields i.i.d. standard normals; streams of distinct (entropy, spawn_key) or distinct words of one generate_state are independent'
T5 = 'T5 external mathematics as axioms: Gaussian moments (Isserlis), Milstein fundamental theorem of mean-square convergence, stochastic-adjoint convergence (Li et al. 2020), pinv(g) g = I for full column rank, round(x, n) idempotent/monotone'
T6 = 'T6 trusted code: pyvc itself (interpreter, torch element-level models, polynomial kernel), z3/cvc5, python ast, trampoline, numpy, torch'
T7 = 'T7 user code: f, g, h are smooth, total, act row-wise and depend on (t, y) only'


class Report:
    def __init__(self, E):
        self.E = E
        self.obligations = []
        self.functions = []
        self.assumptions = []
        self.bounded = []
        self.notes = []
        self.bounded_mode = None   # when set, every obligation added is a bounded stand-in (never counted as proved)

    def under_contract(self, *qualnames):
        for q in qualnames:
            d = self.E.repo.describe(q)
            if d not in self.functions:
                self.functions.append(d)

    def assume(self, *texts):
        for t in texts:
            if t not in self.assumptions:
                self.assumptions.append(t)

    def take(self, obs):
        """Adopt Obligation objects produced by pyvc.contract.verify."""
        for ob in obs:
            d = ob.to_json()
            if self.bounded_mode:
                d['bounded'] = self.bounded_mode
            self.obligations.append(d)

    def add(self, name, kind, status, backend, seconds=0.0, model=None, note='', statement=None, finding_key=None, bounded=None, finding_sig=None):
        d = {'name': name, 'kind': kind, 'status': status, 'backend': backend, 'seconds': round(seconds, 4)}
        if bounded or self.bounded_mode:
            d['bounded'] = bounded or self.bounded_mode
        if model is not None:
            d['model'] = model
        if note:
            d['note'] = note
        if statement:
            d['statement'] = statement
        if finding_key:
            d['finding_key'] = finding_key
        if finding_sig:
            d['finding_sig'] = finding_sig
        self.obligations.append(d)
        return d

    def poly_zero(self, name, p, kind='post', statement=None, finding_key=None, bounded=None):
        """Obligation: polynomial p is identically zero (decided by ring normal form; z3 supplies the
        counterexample point when it is not)."""
        import time
        t0 = time.time()
        if isinstance(p, (int, Fraction)):
            p = Poly.const(p)
        if p.is_zero():
            return self.add(name, kind, 'discharged', 'poly-normal-form', time.time() - t0, statement=statement, bounded=bounded)
        model = poly_counterexample(p)
        import hashlib
        sig = hashlib.md5(repr(p.key()).encode()).hexdigest()[:10] if finding_key else None      # identifies *which* residual fails
        return self.add(name, kind, 'refuted', 'poly-normal-form+z3-model', time.time() - t0, model=model,
                        note='residual: ' + repr(p)[:300], statement=statement, finding_key=finding_key, bounded=bounded, finding_sig=sig)

    def result(self):
        E = self.E
        seen = set()
        for v in getattr(E, 'frame_violations', []):
            if v['name'] not in seen:
                seen.add(v['name'])
                self.obligations.append({'name': v['name'], 'kind': v.get('kind', 'frame'), 'status': 'refuted', 'backend': 'pyvc-exec', 'seconds': 0.0,
                                         'note': v['what'], 'line': v['lineno']})
        return {'obligations': self.obligations, 'functions': self.functions, 'assumptions': self.assumptions,
                'bounded': self.bounded, 'inlined': sorted(E.inlined), 'contract_calls': sorted(E.contract_calls),
                'paths': E.paths, 'dropped': E.dropped, 'notes': self.notes,
                'renamed_locals': [[q, m] for q, m in getattr(E.repo, 'renamed_locals', [])]}


def poly_counterexample(p):
    """A rational point where p != 0 (found by z3 on the normalised polynomial; falls back to search)."""
    vs = sorted(p.vars())
    try:
        zs = {v: z3.Real(v) for v in vs}
        expr = z3.RealVal(0)
        for m, c in list(p.t.items())[:200]:
            term = z3.RealVal(str(c))
            for v, e in m:
                if e < 0:
                    raise ValueError
                for _ in range(e):
                    term = term * zs[v]
            expr = expr + term
        s = z3.Solver()
        s.set('timeout', 5000)
        s.add(expr != 0)
        for v in vs:
            s.add(zs[v] >= 1, zs[v] <= 3)
        if s.check() == z3.sat:
            m = s.model()
            return {v: str(m.eval(zs[v], model_completion=True)) for v in vs}
    except Exception:
        pass
    rnd = random.Random(1)
    for _ in range(50):
        env = {v: Fraction(rnd.randint(1, 7), rnd.randint(1, 5)) for v in vs}
        try:
            if p.evaluate(env) != 0:
                return {v: str(x) for v, x in env.items()}
        except ZeroDivisionError:
            continue
    return {'note': 'no point found'}


class Job:
    def __init__(self, name, fn):
        self.name = name
        self.fn = fn

    def run(self, tier='quick', seed=0, patches=None):
        if patches:
            repo, missing = patched_repo(patches['patches'])
            if missing:
                return {'obligations': [], 'functions': [], 'skipped': f'anchor text not found: {missing[0][1][:60]!r}'}
        else:
            repo = Repo()
        tmo = 30000 if tier == 'quick' else 300000
        E = Engine(repo, timeout_ms=tmo)
        tensor.install(E)
        tensor.reset_state()
        rep = Report(E)
        self.fn(E, rep, tier)
        return rep.result()


def run_native(recipe, args=None, timeout=150, hang_is_failure=False):
    """Run a native replay recipe with /venv/bin/python against /repo; returns its JSON verdict."""
    import json
    import os
    import subprocess
    root = os.path.dirname(os.path.dirname(os.path.abspath(__file__)))
    memo_key = (recipe, json.dumps(args or {}, sort_keys=True))
    if memo_key in _NATIVE_MEMO:
        return _NATIVE_MEMO[memo_key]
    r = _run_native(root, recipe, args, timeout, hang_is_failure)
    _NATIVE_MEMO[memo_key] = r
    return r


_NATIVE_MEMO = {}


def _run_native(root, recipe, args, timeout, hang_is_failure):
    import json
    import os
    import subprocess
    cmd = ['/venv/bin/python', os.path.join(root, 'replay', 'native.py'), recipe, json.dumps(args or {})]
    env = dict(os.environ, PYTHONPATH=os.environ.get('PYVC_REPO', '/repo'), OMP_NUM_THREADS='2')
    try:
        p = subprocess.run(cmd, capture_output=True, text=True, timeout=timeout, env=env)
        line = [l for l in p.stdout.splitlines() if l.startswith('{')]
        if line:
            return json.loads(line[-1])
        return {'reproduced': False, 'error': (p.stderr or p.stdout)[-400:]}
    except subprocess.TimeoutExpired:
        if hang_is_failure:
            return {'reproduced': True, 'detail': f'native replay of recipe {recipe} did not terminate within {timeout}s (it needs under a minute on the pinned tree)'}
        return {'reproduced': False, 'error': 'native replay timed out'}


def model_floats(model):
    """z3 model values ('1/2', '0.5?', '-3') -> floats."""
    from fractions import Fraction
    out = {}
    for k, v in (model or {}).items():
        try:
            out[k] = float(Fraction(v.replace('?', '')))
        except Exception:
            pass
    return out
