"""C17 - special noise types agree with their general-noise embedding (dimension-bounded, exact)."""
import numpy as np

from props.base import Job, T1, T3, T6, T7
from props import x_common as X
from pyvc import harness as H
from pyvc.interp import PyExc
from pyvc.poly import Poly
from pyvc.tensor import XT

LEVEL = 'proof'
TRUSTED = ['pyvc interpreter, torch element models, polynomial kernel (T6)', 'autograd as formal differentiation (T3, log-ODE only)']
ASSUMPTIONS = [T1, T3, T6, T7]
NOT_DECIDED = ['dimension-bounded: B=2, d=2 (m=2 diagonal/additive, m=1 scalar); an unbounded version would need an axiomatised batched sum']
EXPLANATION = ('For every solver accepting general noise the real step() is executed twice on explicit tensors -- with the special declaration '
               '(diagonal g:(B,d), scalar g:(B,d,1), additive g(t):(B,d,m)) and with the same SDE declared `general` (g as a batch of d x m '
               'matrices) -- under the same Brownian increment; obligation: identical y1 (and identical carried state for reversible Heun). '
               'f, g are uninterpreted smooth functions (time-dependent), dt and dW free symbols.')
SOLVERS = ['euler', 'euler_heun', 'heun', 'midpoint', 'reversible_heun', 'log_ode']


class Embed:
    """general-noise declaration of a special diffusion: diag(g) for diagonal noise, g itself otherwise"""

    def __init__(self, g, noise):
        self.g, self.noise = g, noise

    def __pyvc_call__(self, engine, args, kwargs, cx, lineno):
        r = self.g.evaluate(args[0], args[1])
        if self.noise != 'diagonal':
            return r
        B, d = r.a.shape
        out = np.empty((B, d, d), dtype=object)
        for b in range(B):
            for i in range(d):
                for j in range(d):
                    out[b, i, j] = r.a[b, i] if i == j else Poly()
        return XT(out, rg=r.rg, leaf=r.leaf)


def make_job(method, noise):
    def fn(E, rep, tier):
        B, d = 2, 2
        m = 1 if noise == 'scalar' else (2 if noise == 'diagonal' else 3)
        st = X.SDE_TYPE[method]
        tag = f'C17/{method}[{noise}->general,B={B},d={d},m={m}]'
        rep.under_contract('torchsde._core.base_sde.ForwardSDE.__init__', 'torchsde._core.base_sde.ForwardSDE.prod_diagonal',
                           'torchsde._core.base_sde.ForwardSDE.prod_default', 'torchsde._core.base_sde.ForwardSDE.dg_ga_jvp_column_sum_v1',
                           'torchsde._core.base_sde.ForwardSDE._return_zero')
        rep.bounded.append({'what': tag, 'bound': f'dimension-bounded B={B}, d={d}, m={m}'})
        S = X.setup(E, noise, st, B, d, m, X.levy_for(method), eta_limit=2)
        # the same step with autograd recording off (inference): it may take other code paths, but must not write into user-owned tensors
        from pyvc.tensor import GradMode
        gm = GradMode(False)
        gm.__pyvc_enter__(S.cx)
        try:
            X.run_step(S, method)
        except PyExc:
            pass
        finally:
            gm.__pyvc_exit__(S.cx)
        try:
            _, y1, ex1 = X.run_step(S, method)
        except PyExc as e:
            rep.add(f'{tag}/special-declaration-accepted', 'post', 'refuted', 'pyvc-exec', model={'raised': f'{e.cls}: {e.msg}'})
            return
        gen_user = H.make_user_sde('general', st, {'f': S.f, 'g': Embed(S.g, noise)})
        gen_sde = H.forward_sde(E, S.cx, gen_user)
        _, y1g, ex1g = X.run_step(S, method, sde=gen_sde)
        ok, why = X.arr_equal(y1, y1g)
        rep.add(f'{tag}/post.same-solution', 'post', 'discharged' if ok else 'refuted', 'poly-normal-form', model=None if ok else {'diff': why},
                statement='y1(special declaration) == y1(general embedding) under the same Brownian increment')
        if method == 'reversible_heun':
            f1, g1, z1 = ex1
            f1g, g1g, z1g = ex1g
            for nm, a, b in (('f', f1, f1g), ('z', z1, z1g)):
                ok, why = X.arr_equal(a, b)
                rep.add(f'{tag}/post.same-carried-{nm}', 'post', 'discharged' if ok else 'refuted', 'poly-normal-form', model=None if ok else {'diff': why})
            emb = Embed(None, noise)
            ga = g1.a
            if noise == 'diagonal':
                full = np.empty((B, d, d), dtype=object)
                for b in range(B):
                    for i in range(d):
                        for j in range(d):
                            full[b, i, j] = ga[b, i] if i == j else Poly()
                ga = full
            ok, why = X.arr_equal(ga, g1g)
            rep.add(f'{tag}/post.same-carried-g', 'post', 'discharged' if ok else 'refuted', 'poly-normal-form', model=None if ok else {'diff': why})
    return Job(f'{method}-{noise}', fn)


def jobs(tier):
    return [make_job(m, n) for m in SOLVERS for n in ('diagonal', 'scalar', 'additive')]


def canaries(tier):
    return [
        {'name': 'euler_heun-additive-skips-second-evaluation', 'job': 'euler_heun-additive',
         'patches': [('torchsde._core.methods.euler_heun', '        g_prod_prime = self.sde.g_prod(t1, y_prime, I_k)\n',
                      '        g_prod_prime = g_prod if self.sde.noise_type == NOISE_TYPES.additive else self.sde.g_prod(t1, y_prime, I_k)\n')]},
        {'name': 'prod_diagonal-wrong', 'job': 'midpoint-diagonal',
         'patches': [('torchsde._core.base_sde', '    def prod_diagonal(self, g, v):\n        return g * v', '    def prod_diagonal(self, g, v):\n        return g * v * 0.5 + g * v.flip(0) * 0.5 if False else g * v.sum(dim=1, keepdim=True)')]},
    ]


def native_replay(ob):
    from props.base import run_native
    return run_native('c17')
