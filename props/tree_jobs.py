"""Jobs over the Brownian interval tree shared by C03/C04/C05/C06/C07."""
import time

import z3

from props.base import Job
from pyvc.contract import verify
from pyvc import tensor
from contracts import tree as T, tree_call as TC, tree_values as TV

BI = 'torchsde._brownian.brownian_interval.'
F = {
    'split_exact': BI + '_Interval._split_exact', 'split': BI + '_Interval._split', 'loc_inner': BI + '_Interval._loc_inner',
    'loc': BI + '_Interval._loc', 'init': BI + '_Interval.__init__', 'setkey': BI + '_Interval._set_spawn_key_and_depth',
    'call': BI + 'BrownianInterval.__call__', 'stla': BI + '_Interval._increment_and_space_time_levy_area',
    'H_to_U': BI + '_H_to_U',
}


def setup(E, tier='quick'):
    tensor.install(E)
    T.install(E)
    TC.install_empty_list_hook(E)
    x = z3.Var(0, z3.RealSort())
    tmo = 20000 if tier == 'quick' else 120000
    # two concrete interpretations of the rounding function that satisfy the T5 axioms: identity (tol = 0) and
    # round-half-up to integers (grid mode with unit u = 1)
    E.finite_scope = [
        {'K': 5, 'L': 3, 'funs': [(T.ROUND, x)], 'set_bools': {'grid_mode': False, 'halfway_tree': False, 'have_H': False},
         'timeout_ms': tmo, 'label': 'round = identity'},
        {'K': 4, 'L': 3, 'funs': [(T.ROUND, z3.ToReal(z3.ToInt(x + z3.RealVal('1/2')))), (T.KOF, z3.ToInt(x))],
         'set_bools': {'grid_mode': True, 'have_H': False}, 'set_reals': {'u': 1}, 'timeout_ms': tmo, 'label': 'round = nearest integer, u = 1', 'drop_real_axioms': True},
    ]


def make(prefix, what, ghost):
    """Job factory: verify one tree function against its contract."""
    def fn(E, rep, tier):
        setup(E, tier)
        G = ghost
        lab = f'{prefix}/{what}' + ('[ghost-path]' if G else '')
        if what == 'split_exact':
            rep.under_contract(F['split_exact'], F['init'], F['setkey'])
            res = verify(E, T.GhostSplitExact() if G else T.SplitExact(), label=lab)
        elif what == 'split':
            rep.under_contract(F['split'])
            E.contracts[T.SplitExact.qualname] = T.SplitExact(G)
            E.contracts[T.Split.qualname] = T.Split(G)
            res = verify(E, T.Split(G), label=lab)
        elif what == 'loc_inner':
            rep.under_contract(F['loc_inner'])
            E.contracts[T.Split.qualname] = T.Split(G)
            E.contracts[T.LocInner.qualname] = T.LocInner(G)
            res = verify(E, T.LocInner(G), label=lab)
        elif what == 'loc':
            rep.under_contract(F['loc'])
            E.contracts[T.LocInner.qualname] = T.LocInner(G)
            res = verify(E, TC.Loc(G), label=lab)
        elif what == 'call':
            rep.under_contract(F['call'], F['H_to_U'])
            TC.install_generic_element_torch(E)
            E.contracts[TC.Loc.qualname] = TC.Loc(True)
            E.contracts[TC.IncLevy.qualname] = TC.IncLevy()
            E.contracts[TC.CreateDepTree.qualname] = TC.CreateDepTree(True)
            res = verify(E, TC.Call(), label=lab)
        else:
            raise KeyError(what)
        rep.take(res['obligations'])
        rep.notes.append(f'{lab}: paths={res["paths"]} covered={res["covered"]}')
    return Job(f'{what}{"-ghost" if ghost else ""}', fn)


def job_split_algebra(prefix, which):
    def fn(E, rep, tier):
        setup(E, tier)
        rep.under_contract(F['stla'])
        recs, obs = TV.extract_split(E)
        for ob in obs:
            ob.name = f'{prefix}/extract/{ob.name}'
        rep.take(obs)
        raised = getattr(TV.extract_split, 'raised', [])
        rep.add(f'{prefix}/extract/no-raise.miss-branch-of-_increment_and_space_time_levy_area', 'no-raise', 'discharged' if not raised else 'refuted', 'pyvc-exec',
                model=None if not raised else {'raised': raised[:3]})
        combos = set()
        for r_ in recs:
            c_ = TV.canon(r_)
            combos.add((c_.get('have_H'), c_.get('is_left')))
        need = {(True, True), (True, False), (False, True), (False, False)}
        rep.add(f'{prefix}/extract/paths-cover(have_H,is_left)', 'post', 'discharged' if need <= combos else 'refuted', 'pyvc-exec',
                model=None if need <= combos else {'missing': [str(x) for x in sorted(need - combos, key=str)]},
                statement='the extracted paths cover both Levy modes and both children (otherwise the algebra obligations would be vacuous)')
        TV.split_obligations(rep, recs, prefix, which)
    return Job('split-algebra', fn)


def prove(rep, name, hyps, goal, statement=None, timeout=60000):
    t0 = time.time()
    s = z3.Solver()
    s.set('timeout', timeout)
    for h in hyps:
        s.add(h)
    s.add(z3.Not(goal))
    r = s.check()
    st = 'discharged' if r == z3.unsat else ('refuted' if r == z3.sat else 'unknown')
    model = None
    if r == z3.sat:
        m = s.model()
        model = {str(d.name()): str(m[d]) for d in m.decls() if d.arity() == 0}
    return rep.add(name, 'lemma', st, 'z3-' + z3.get_version_string(), time.time() - t0, model=model,
                   statement=statement or str(goal)[:240])


def job_pure_lemmas(prefix):
    def fn(E, rep, tier):
        R = z3.RealSort()
        l, r, Wp, Hp, Wl, Wr, Hl, Hr, VS, VE, WS = z3.Reals('l r Wp Hp Wl Wr Hl Hr VS VE WS')
        prem = [l > 0, r > 0, (l + r) * (Wp / 2 + Hp) == VE - VS - (l + r) * WS, Wl + Wr == Wp,
                r * (Hr + Wl / 2) + l * (Hl - Wr / 2) == (l + r) * Hp]
        concl = r * (Wr / 2 + Hr) == VE - (VS + l * WS + l * (Wl / 2 + Hl)) - r * (WS + Wl)
        prove(rep, f'{prefix}/lemma.ghost-right-child', prem, concl,
              'GP(parent) + split identities => the right child satisfies GP with Wc[m] = Wc[S]+W_l, V[m] = V[S]+l Wc[S]+l(W_l/2+H_l)')
        # Chen's relation from the postcondition of __call__ (Wc, V are functions of position)
        Wc = z3.Function('Wc', R, R)
        V = z3.Function('V', R, R)
        s_, u_, t_ = z3.Reals('s u t')
        Wf = lambda a, b: Wc(b) - Wc(a)
        Uf = lambda a, b: V(b) - V(a) - (b - a) * Wc(a)
        prove(rep, f'{prefix}/lemma.chen.W', [s_ <= u_, u_ <= t_], Wf(s_, t_) == Wf(s_, u_) + Wf(u_, t_),
              'W(s,t) == W(s,u) + W(u,t) from the postcondition W(a,b) = Wc(b)-Wc(a)')
        prove(rep, f'{prefix}/lemma.chen.U', [s_ <= u_, u_ <= t_], Uf(s_, t_) == Uf(s_, u_) + Uf(u_, t_) + (t_ - u_) * Wf(s_, u_),
              'U(s,t) == U(s,u) + U(u,t) + (t-u) W(s,u) from the postcondition U(a,b) = V(b)-V(a)-(b-a)Wc(a)')
        # reversed path: W~c(t) = -Wc(-t), V~(t) = V(-t): the contract of ReverseBrownian in terms of the base object
        a, b = z3.Reals('a b')
        Wb, Ub = Wf(-b, -a), Uf(-b, -a)
        Wt = lambda x: -Wc(-x)
        Vt = lambda x: V(-x)
        prove(rep, f'{prefix}/lemma.reverse.W', [a <= b], Wb == Wt(b) - Wt(a), 'base increment over (-tb,-ta) is the reversed path increment')
        prove(rep, f'{prefix}/lemma.reverse.U', [a <= b], (b - a) * Wb - Ub == Vt(b) - Vt(a) - (b - a) * Wt(a),
              '(tb-ta) W - U_base is the space-time integral of the reversed path')
    return Job('pure-lemmas', fn)
