"""C14 - adaptive stepping terminates, tiles the interval and honours tolerances."""
import z3

from props.base import Job, T1, T5, T6
from pyvc.contract import verify
from pyvc import interp as I, tensor
from pyvc.values import SV
from contracts import integrate as CI
from contracts import integrate_adaptive as CA

LEVEL = 'proof'
TRUSTED = ['pyvc interpreter (T6)', 'z3 5.1.0', 'x**a for non-integer a: uninterpreted pow with monotonicity axioms (T5)']
ASSUMPTIONS = [T1, T5, T6, 'dt > 0, dt_min > 0', 'step is a function of (t0, t1, y0, extra0) (C13 frames)']
NOT_DECIDED = ['"tightening the tolerances reduces the true error": no contract on this code expresses it',
               'termination is reduced to the proved progress facts (an accepted step advances by >= min(dt_min, ts[-1]-t) > 0; a '
               'rejected trial shrinks the step by a factor c < 1 and never below dt_min, where it is accepted): the lexicographic '
               'well-foundedness argument itself is meta-level']
EXPLANATION = ('integrate() with adaptive=True is executed symbolically; the loop invariant ties the carried state to a ghost accepted '
               'trajectory whose consecutive states are related by the two-half-step map; trial-level obligations (accept iff, '
               'rejected => unchanged state and smaller step, trial length >= dt_min or clipped, three Brownian queries) are generated '
               'after each symbolic execution of the loop body; the controller update_step_size and compute_error are verified against their own contracts.')
F_INTEGRATE = 'torchsde._core.base_solver.BaseSDESolver.integrate'


def job_controller(E, rep, tier):
    rep.under_contract('torchsde._core.adaptive_stepping.update_step_size')
    E.hooks['pow'] = CI.pow_hook
    rep.take(verify(E, CI.UpdateStepSizeBody('property'), label='C14/update_step_size')['obligations'])


def job_compute_error(E, rep, tier):
    rep.under_contract('torchsde._core.adaptive_stepping.compute_error', 'torchsde._core.adaptive_stepping._rms',
                       'torchsde._core.misc.is_nan')
    rep.take(verify(E, CI.ComputeErrorBody(), label='C14/compute_error')['obligations'])
    rep.bounded.append({'what': 'C14/compute_error', 'bound': 'explicit tensors of shape (1,2); generic in all element values, rtol, atol'})


def job_integrate(E, rep, tier):
    rep.under_contract(F_INTEGRATE)
    E.contracts[CI.StepContract.qualname] = CI.StepContract()
    E.contracts[CI.LinearInterpContract.qualname] = CI.LinearInterpContract()
    E.contracts[CI.ComputeErrorContract.qualname] = CI.ComputeErrorContract()
    E.contracts[CI.UpdateStepSizeContract.qualname] = CI.UpdateStepSizeContract()
    E.externs['torch'].attrs['stack'] = I.ExternFunc('torch.stack', CI.stack_model, needs_cx=True)
    # the modular proof rests on the helper clauses of the call-site contract of update_step_size; they are checked here, against the body
    E.hooks['pow'] = CI.pow_hook
    helpers = verify(E, CI.UpdateStepSizeBody('helper'), label='C14/update_step_size[call-site contract]')['obligations']
    failed = [o.name for o in helpers if o.status != 'discharged']
    if failed:
        # not demanded by the property: no verdict from it; the loop is decided with the controller inlined (job integrate-adaptive-inlined)
        rep.notes.append('call-site contract of update_step_size is not met by the current controller (' + ', '.join(failed) + '): the modular '
                         'proof of integrate() is not used; the property-level obligations are decided on the composition with the controller inlined')
        return
    rep.take(helpers)
    res = verify(E, CA.IntegrateAdaptive(), label='C14/integrate[adaptive]')
    rep.take(res['obligations'])


def job_integrate_inlined(E, rep, tier):
    """The same loop obligations with the real body of update_step_size executed in place of its contract (whole composition of
    integrate + controller): decides the property-level obligations even for controllers that leave the helper clauses of the
    call-site contract (accept-never-shrinks, bounded-factor), which the property does not demand."""
    rep.under_contract(F_INTEGRATE, 'torchsde._core.adaptive_stepping.update_step_size')
    E.contracts[CI.StepContract.qualname] = CI.StepContract()
    E.contracts[CI.LinearInterpContract.qualname] = CI.LinearInterpContract()
    E.contracts[CI.ComputeErrorContract.qualname] = CI.ComputeErrorContract()
    E.hooks['pow'] = CI.pow_hook
    E.externs['torch'].attrs['stack'] = I.ExternFunc('torch.stack', CI.stack_model, needs_cx=True)
    res = verify(E, CA.IntegrateAdaptive(), label='C14/integrate[adaptive,controller-inlined]')
    rep.take(res['obligations'])


def jobs(tier):
    return [Job('controller', job_controller), Job('compute_error', job_compute_error), Job('integrate-adaptive', job_integrate),
            Job('integrate-adaptive-inlined', job_integrate_inlined)]


def canaries(tier):
    B = 'torchsde._core.base_solver'
    return [
        {'name': 'accept-always', 'job': 'integrate-adaptive',
         'patches': [(B, 'if error_estimate <= 1 or step_size <= self.dt_min:', 'if error_estimate <= 1 or step_size <= self.dt_min or True:')]},
        {'name': 'use-full-step-value', 'job': 'integrate-adaptive',
         'patches': [(B, 'curr_t, curr_y, curr_extra = next_t, next_y, next_extra', 'curr_t, curr_y, curr_extra = next_t, next_y_full, next_extra')]},
        {'name': 'no-dt_min-clamp', 'job': 'integrate-adaptive',
         'patches': [(B, '                        step_size = self.dt_min\n                        prev_error_ratio = None', '                        prev_error_ratio = None')]},
        {'name': 'never-shrink', 'job': 'controller',
         'patches': [('torchsde._core.adaptive_stepping', '        ifactor = 1 / 1.5  # 1 / 5', '        ifactor = 0  # 1 / 5')]},
        {'name': 'tolerances-swapped-at-the-call-site', 'job': 'integrate-adaptive-inlined',
         'patches': [(B, 'adaptive_stepping.compute_error(next_y_full, next_y, self.rtol, self.atol)', 'adaptive_stepping.compute_error(next_y_full, next_y, self.atol, self.rtol)')]},
        {'name': 'error-of-first-half-step-only', 'job': 'integrate-adaptive',
         'patches': [(B, 'adaptive_stepping.compute_error(next_y_full, next_y, self.rtol, self.atol)', 'adaptive_stepping.compute_error(next_y_full, midpoint_y, self.rtol, self.atol)')]},
        {'name': 'rms-not-clamped', 'job': 'compute_error',
         'patches': [('torchsde._core.adaptive_stepping', "return torch.sqrt(sum((x_ ** 2.).sum() for x_ in x) / sum(x_.numel() for x_ in x)).clamp_min(eps)", "return torch.sqrt(sum((x_ ** 2.).sum() for x_ in x) / sum(x_.numel() for x_ in x))")]},
        {'name': 'stale-extra-on-reject', 'job': 'integrate-adaptive',
         'patches': [(B, 'midpoint_y, midpoint_extra = self.step(curr_t, midpoint_t, curr_y, curr_extra)\n                    next_y, next_extra = self.step(midpoint_t, next_t, midpoint_y, midpoint_extra)',
                      'midpoint_y, curr_extra = self.step(curr_t, midpoint_t, curr_y, curr_extra)\n                    next_y, next_extra = self.step(midpoint_t, next_t, midpoint_y, curr_extra)')]},
    ]


def native_replay(ob):
    from props.base import run_native
    return run_native('c14')
