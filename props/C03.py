"""C03 - a Brownian object is one path: additivity, Chen's relation, zero-length queries."""
from props.base import Job, T1, T2, T5, T6
from props import tree_jobs as TJ
from props import agg_jobs as AJ
from props import wrapper_jobs as WJ

LEVEL = 'proof'
TRUSTED = ['pyvc interpreter + heap model (T6)', 'z3 5.1.0 / cvc5 1.0.3 / z3 4.8.12', 'trampoline (yield = call, TailCall = return)']
ASSUMPTIONS = [T1, T2, T5, T6,
               'W, H, U are element-wise in the sample: obligations are stated on a generic element',
               'with tol > 0 the U clause is proved at resolved (rounded) times, as the property states',
               'termination of the trampolined search is C07; here partial correctness']
NOT_DECIDED = ['re-decomposition of the *same* query after refinement (relational closure) is C05/C06 material']
EXPLANATION = ('Heap-level Hoare proofs of the real _split_exact/_split/_loc_inner/_loc/__call__ with a ghost Brownian path '
               '(Wc, V : position -> value) carried as a data-structure invariant: every node satisfies W_n = Wc(end)-Wc(start) and the '
               'U relation; _split_exact preserves it (using the split identities proved from the real bridge formulas and the laminar '
               'invariants); __call__ returns W = Wc(tb)-Wc(ta), U = V(tb)-V(ta)-(tb-ta)Wc(ta). Chen is then a lemma, for every history.')


def jobs(tier):
    P = 'C03'
    return [TJ.job_split_algebra(P, ('chen',)), TJ.job_pure_lemmas(P),
            TJ.make(P, 'split_exact', True), TJ.make(P, 'split', True), TJ.make(P, 'loc_inner', True), TJ.make(P, 'loc', True),
            TJ.make(P, 'call', True), TJ.make(P, 'loc_inner', False), WJ.job_wrappers(P), AJ.job_aggregation(P)]


def canaries(tier):
    B = 'torchsde._brownian.brownian_interval'
    return [
        {'name': 'bridge-coefficient-6-to-5', 'job': 'split-algebra', 'patches': [(B, 'second_coeff = 6 * first_coeff * right_diff * h_reciprocal', 'second_coeff = 5 * first_coeff * right_diff * h_reciprocal')]},
        {'name': 'aggregate-H-sign', 'job': 'call-ghost', 'patches': [(B, 'term2 = (interval._start - ta) * (H - 0.5 * Wi)', 'term2 = (interval._start - ta) * (H + 0.5 * Wi)')]},
        {'name': 'leaf-test-falsy-midway', 'job': 'loc_inner-ghost', 'patches': [(B, '        if self._midway is None:\n            # It\'s up to us.', '        if not self._midway:\n            # It\'s up to us.')]},
        {'name': 'reverse-forwards-U-unchanged', 'job': 'wrappers', 'patches': [('torchsde._brownian.derived', '                rest[0] = (tb - ta) * W - rest[0]\n', '                pass\n')]},
        {'name': 'straddle-second-call-wrong-interval', 'job': 'loc_inner', 'patches': [(B, 'raise trampoline.TailCall(self._right_child._loc_inner(self._midway, tb, out))', 'raise trampoline.TailCall(self._right_child._loc_inner(ta, tb, out))')]},
    ]


def native_replay(ob):
    from props.base import run_native
    return run_native('c03', timeout=600, hang_is_failure=True)
