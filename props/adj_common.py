"""Shared set-up for the adjoint properties (C09/C10/C11): exact (non-perturbative) J domain --
user functions are DynJetFunctions (uninterpreted values + derivative atoms at each evaluation
point), autograd in Taylor mode (formal eta variables)."""
from fractions import Fraction

import numpy as np

from pyvc import harness as H, jets, poly, tensor
from pyvc.interp import Ctx
from pyvc.poly import Poly
from pyvc.tensor import XT, TorchSize, el_detach


class ASetup:
    pass


def gshape(noise, d, m):
    return (d,) if noise == 'diagonal' else (d, m)


def setup(E, noise, sde_type, B=1, d=1, m=1, eta_limit=2, n_params=1, unused_param=False, extra_methods=None):
    tensor.reset_state()
    tensor.STATE['engine'] = E
    poly.configure(weights={}, limits={'eta': eta_limit})
    S = ASetup()
    S.E, S.cx = E, Ctx(E, [])
    S.noise, S.sde_type, S.B, S.d, S.m = noise, sde_type, B, d, m
    S.params = []
    for k in range(n_params):
        th = XT(np.array(Poly.var(f'theta{k}'), dtype=object).reshape(()))
        th.m_requires_grad_(True)
        S.params.append(th)
    S.unused = None
    if unused_param:
        S.unused = XT(np.array(Poly.var('theta_unused'), dtype=object).reshape(()))
        S.unused.m_requires_grad_(True)
    S.f = jets.DynJetFunction('F', d, (d,), params=S.params)
    S.g = jets.DynJetFunction('G', d, gshape(noise, d, m), params=S.params, elementwise=(noise == 'diagonal'),
                              ydep=(noise != 'additive'))
    S.g.per_row = True      # additive noise: independent of the state, but not necessarily the same for every batch row
    methods = {'f': S.f, 'g': S.g}
    if extra_methods:
        methods.update(extra_methods(S))
    S.user = H.make_user_sde(noise, sde_type, methods)
    S.user.fields['$parameters'] = list(S.params)
    S.sde = H.forward_sde(E, S.cx, S.user)
    return S


def leaf(arr):
    x = XT(np.vectorize(el_detach, otypes=[object])(arr))
    x.m_requires_grad_(True)
    return x


def detached(x):
    return XT(np.vectorize(el_detach, otypes=[object])(x.a))


def grad_of(S, outputs, inputs, grad_outputs, create_graph=False):
    """Reference derivative by the autograd model (T3): sum_k <grad_outputs_k, outputs_k> differentiated w.r.t. inputs."""
    from pyvc.tensor import autograd_grad
    outs, gos = [], []
    for o, g in zip(outputs, grad_outputs):
        if o.rg:
            outs.append(o)
            gos.append(g)
    res = autograd_grad(S.E, S.cx, 0, outs, inputs, grad_outputs=gos, allow_unused=True, create_graph=create_graph)
    out = []
    for r, i in zip(res, inputs):
        out.append(r if r is not None else XT(np.full(i.a.shape, Fraction(0), dtype=object)))
    return out


def arr_eq_obligations(rep, name, got, want, statement=None, **kw):
    """One obligation per tensor: all elements polynomially equal (after dropping eta from both)."""
    ga = np.vectorize(el_detach, otypes=[object])(got.a if isinstance(got, XT) else got)
    wa = np.vectorize(el_detach, otypes=[object])(want.a if isinstance(want, XT) else want)
    if ga.shape != wa.shape:
        rep.add(name, 'post', 'refuted', 'pyvc-exec', model={'shape_got': str(ga.shape), 'shape_want': str(wa.shape)},
                statement=statement, **kw)
        return
    worst = None
    for idx in np.ndindex(*ga.shape):
        diff = Poly.lift(ga[idx]) - Poly.lift(wa[idx])
        if not diff.is_zero():
            worst = diff
            break
    rep.poly_zero(name, worst if worst is not None else Poly(), statement=statement, **kw)


# ---------------------------------------------------------------------------------------------
# bounded end-to-end harness: real _SdeintAdjointMethod.forward / backward
# ---------------------------------------------------------------------------------------------
from pyvc import interp as I  # noqa: E402
from pyvc.values import Unsupported  # noqa: E402


class FnCtx:
    """The `ctx` object of torch.autograd.Function (T3: save_for_backward stores, saved_tensors returns)."""

    def __init__(self):
        self.fields = {}

    def __pyvc_getattr__(self, engine, name, cx, lineno):
        if name == 'save_for_backward':
            def save(*ts):
                self.fields['saved_tensors'] = tuple(ts)
            return I.ExternFunc('ctx.save_for_backward', save)
        if name in self.fields:
            return self.fields[name]
        raise I.PyExc('AttributeError', f'ctx has no {name}', lineno)

    def __pyvc_setattr__(self, engine, name, v, cx, lineno):
        self.fields[name] = v


def install_function_apply(E):
    """torch.autograd.Function.apply(*args) = forward(ctx, *args) run with grad disabled (T3)."""
    from pyvc.tensor import GradMode
    prev = E.hooks.get('getattr')

    def hook(eng, obj, name, cx, lineno):
        if isinstance(obj, I.ClassVal) and name == 'apply' and any(
                isinstance(b, I.ExternBase) and b.name == 'torch.autograd.Function' for b in obj.bases):
            fwd = obj.attrs['forward']
            fwd = fwd.func if isinstance(fwd, I.StaticVal) else fwd

            def apply(*args):
                ctx = FnCtx()
                gm = GradMode(False)
                gm.__pyvc_enter__(cx)
                try:
                    out = eng.call(fwd, [ctx] + list(args), {}, cx, lineno)
                finally:
                    gm.__pyvc_exit__(cx)
                ctx.apply_args = list(args)
                eng.last_fn_ctx = ctx
                return out
            return I.ExternFunc(obj.name + '.apply', apply)
        if prev is not None:
            return prev(eng, obj, name, cx, lineno)
        return NotImplemented
    E.hooks['getattr'] = hook


def install_module_parameters(E):
    """nn.Module.parameters(): the parameters registered on the object and, recursively, on its sub-objects (the harness registers the
    user's parameters under the field '$parameters')."""
    prev = E.hooks.get('getattr')

    def collect(obj, seen):
        out = []
        if id(obj) in seen or not isinstance(obj, I.ObjVal):
            return out
        seen.add(id(obj))
        out += list(obj.fields.get('$parameters', []))
        for v in obj.fields.values():
            if isinstance(v, I.ObjVal):
                out += collect(v, seen)
        return out

    def hook(eng, obj, name, cx, lineno):
        if name == 'parameters' and isinstance(obj, I.ObjVal) and 'parameters' not in obj.fields:
            return I.ExternFunc('Module.parameters', lambda: iter(collect(obj, set())))
        if prev is not None:
            return prev(eng, obj, name, cx, lineno)
        return NotImplemented
    E.hooks['getattr'] = hook


class PathBM:
    """Brownian stub that is one path: W(ta, tb) = Wc(tb) - Wc(ta) with one symbol per (time, element)."""

    def __init__(self, shape, levy='none'):
        self.shape = shape
        self.levy = levy
        self.queries = []

    def wc(self, t):
        from pyvc.jets import scalar_poly
        import hashlib
        p = scalar_poly(t)
        key = repr(p) if len(p.t) <= 3 else hashlib.md5(repr(p.key()).encode()).hexdigest()[:12]
        a = np.empty(self.shape, dtype=object)
        for idx in np.ndindex(*self.shape):
            a[idx] = Poly.var('Wc[' + key + ']' + ''.join(f'_{i}' for i in idx))
        return a

    def fn(self, ta, tb):
        self.queries.append((ta, tb))
        return XT(self.wc(tb) - self.wc(ta)), None, None

    def stub(self):
        return H.BMStub(self.shape, self.levy, self.fn)


def ts_tensor(vals):
    a = np.empty((len(vals),), dtype=object)
    for i, v in enumerate(vals):
        a[i] = Fraction(v)
    return XT(a)
