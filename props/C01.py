"""C01 - convergence at the advertised strong order, decided as a lemma over contracts:
Milstein's fundamental theorem (T5) + (1) local orders = C02 obligations at the order each solver
*advertises* (read from the real strong_order expression), (2) composition on one contiguous grid
(C12), (3) one Brownian path (C03/C04).  This module generates family (1): for every accepted
(method, sde_type, noise_type, options) the advertised order must not exceed the largest order for
which the local-expansion conditions are proved."""
from fractions import Fraction

from props.base import Job, T1, T3, T5, T6, T7
from props import sde_common as C
from props import C02
from pyvc.interp import PyExc

LEVEL = 'proof'
TRUSTED = C02.TRUSTED + ["Milstein's fundamental theorem of mean-square convergence (T5)"]
ASSUMPTIONS = [T1, T3, T5, T6, T7,
               'composition hypothesis imported from C12 (fixed-step integrate applies step on one contiguous grid) '
               'and one-path hypothesis imported from C03/C04']
NOT_DECIDED = ['"with adaptive stepping the error shrinks as the tolerances are tightened": no contract expresses it',
               'the limit dt -> 0 itself is the trusted theorem (T5); only its code-facing hypotheses are proved']
EXPLANATION = ('For each accepted configuration the real solver is constructed, its advertised strong_order read from the '
               'object, and the largest p in {0.5,1,1.5,2} for which the C02 local conditions (identical terms up to '
               'eps^(2p), matching mean at eps^(2p+1)) hold is computed from the real step(); obligation: advertised <= proved.')

CANDIDATES = [Fraction(1, 2), Fraction(1), Fraction(3, 2), Fraction(2)]


def make_job(method, st, noise, opts, d):
    gf = ',grad_free' if opts else ''
    name = f'C01/advertised<=proved[{method},{st}{gf}]'

    def fn(E, rep, tier):
        rep.under_contract(*C02.SOLVER_FILES[method])
        m = d if noise in ('diagonal', 'general') else (1 if noise == 'scalar' else d)
        try:
            S = C.setup(E, d=d, m=m, B=1, noise=noise, sde_type=st, N=6, levy=C02.levy_for(method))
            solver, y1, extra1, adv = C.run_step(S, method, options=opts)
        except PyExc as e:
            if e.cls == 'ValueError':
                rep.add(f'{name}[{noise},d={d}]/rejected', 'raises', 'discharged', 'pyvc-exec', note='constructor raised ValueError')
                return
            raise
        C.queries_ok(S, rep, f'{name}[{noise},d={d}]')
        spec = C.TaylorSpec(S, 0)
        proved = Fraction(0)
        for p in CANDIDATES:
            if C02.holds_at(S, spec, y1, p):
                proved = p
            else:
                break
        adv = Fraction(adv)
        ok = adv <= proved
        sig = None
        if not ok:
            nxt = next((p for p in CANDIDATES if p > proved), None)
            sig = f'{adv}>{proved}:' + (C02.failure_sig(S, spec, y1, nxt) if nxt is not None else '-')
        rep.add(f'{name}[{noise},d={d}]', 'lemma', 'discharged' if ok else 'refuted', 'poly-normal-form',
                statement=f'advertised strong order {adv} <= proved local order {proved}',
                model=None if ok else {'advertised': str(adv), 'proved': str(proved), 'failure signature at the next order': sig},
                finding_key=name, finding_sig=sig)
        if d > 1:
            rep.bounded.append({'what': f'{name}[{noise},d={d}]', 'bound': f'dimension-bounded d={d}'})
    return Job(f'{method}-{st}-{noise}{"-gf" if opts else ""}-d{d}', fn)


def jobs(tier):
    out = []
    for (method, st, noise, opts) in C02.configs():
        out.append(make_job(method, st, noise, opts, 1))
        out.append(make_job(method, st, noise, opts, 2))
    return out


def canaries(tier):
    return [
        {'name': 'euler-advertises-1.0', 'job': 'euler-ito-diagonal-d1',
         'patches': [('torchsde._core.methods.euler', 'self.strong_order = 1.0 if sde.noise_type == NOISE_TYPES.additive else 0.5', 'self.strong_order = 1.0')]},
        {'name': 'milstein-half', 'job': 'milstein-ito-scalar-d1',
         'patches': [('torchsde._core.methods.milstein', 'I_k, 0.5 * v)', 'I_k, v)')]},
    ]


def native_replay(ob):
    """Empirical strong order of the method named in the obligation, on a diagonal-noise SDE with time-dependent diffusion and known solution."""
    import re
    from props.base import run_native
    m = re.search(r'\[(\w+),(ito|stratonovich)', ob['name'])
    return run_native('c01', {'method': m.group(1)} if m else {}, timeout=300, hang_is_failure=False)
