"""The real BrownianInterval.__init__ / BrownianTree.__init__ / BrownianPath.__init__ executed on symbolic arguments
(shared by C04 top-level law, C06 determinism, C07 constructor dispatch)."""
import time
from fractions import Fraction

import numpy as np
import z3

from props.base import Job
from pyvc import interp as I
from pyvc.interp import Ctx, PyExc
from pyvc.tensor import XT
from pyvc.values import SV, SB, to_z3
from contracts import tree as T
from contracts.tree import ROUND, RANDN, SEED

BI = 'torchsde._brownian.brownian_interval'
D = 'torchsde._brownian.derived'


def prepare(E):
    from pyvc import tensor
    state = {'randint': 0}
    E.module(BI).globals['_randn'] = I.ExternFunc('_randn', lambda size, dtype, device, seed: SV(RANDN(to_z3(seed))))
    E.hooks['round'] = lambda eng, cx, lineno, x, nd: SV(ROUND(to_z3(x)))

    class SeedSeq:
        def __init__(self, entropy=None, spawn_key=(), pool_size=4):
            self.entropy, self.spawn_key, self.pool = entropy, tuple(spawn_key), pool_size

        def __pyvc_getattr__(self, engine, name, cx, lineno):
            if name == 'generate_state':
                sk = self.spawn_key + (-1, -1)   # the top-level generator has the empty spawn key: modelled as (-1, -1)
                return I.ExternFunc('generate_state', lambda k: tuple(
                    SV(SEED(to_z3(self.entropy), to_z3(sk[0]), to_z3(sk[1]), to_z3(self.pool), z3.IntVal(i))) for i in range(k)))
            raise I.PyExc('AttributeError', name, lineno)

    def randint(*a):
        state['randint'] += 1
        return SV(z3.Int('random_entropy'))
    E.externs['numpy'].attrs['random'] = I.ExternModule('numpy.random', {
        'SeedSequence': I.ExternFunc('SeedSequence', lambda **kw: SeedSeq(**kw)),
        'randint': I.ExternFunc('np.random.randint', randint)})
    E.externs['torch'].attrs['device'] = I.ExternFunc('torch.device', lambda x: x)
    E.externs['torch'].attrs['get_default_dtype'] = I.ExternFunc('torch.get_default_dtype', lambda: 'default-dtype')
    return state


class NoopDepTree:
    qualname = BI + '.BrownianInterval._create_dependency_tree'

    def apply(self, E, cx, a, lineno):
        cx.state.setdefault('deptree_calls', []).append(a['dt'])
        return None


def construct(E, cx, **kw):
    cls = E.module(BI).globals['BrownianInterval']
    E.contracts[NoopDepTree.qualname] = NoopDepTree()
    return E.instantiate(cls, [], kw, cx, 0)


def job_constructor(prefix):
    def fn(E, rep, tier):
        rep.under_contract(BI + '.BrownianInterval.__init__', BI + '._check_tensor_info', BI + '._is_scalar', BI + '._Interval.__init__',
                           BI + '._LRUDict.__init__')
        state = prepare(E)
        mod = E.module(BI)

        def run(tag, expect_raise=None, **kw):
            state['randint'] = 0
            results = []

            def body(cx):
                t0, t1 = cx.real('t0'), cx.real('t1')
                if expect_raise != 't0>t1':
                    cx.assume(t0.e <= t1.e)
                else:
                    cx.assume(t0.e > t1.e)
                args = dict(t0=t0, t1=t1, size=(2, 3), dtype='float64', device='cpu')
                args.update(kw)
                for k, v in list(args.items()):
                    if v == '$sym_int':
                        args[k] = cx.int(k)
                    if v == '$sym_pos':
                        args[k] = cx.real(k)
                        cx.assume(args[k].e > 0)
                obj = construct(E, cx, **args)
                results.append((cx, obj, t0, t1, args))
                return obj
            n0 = len(E.all_obligations)
            outs = E.explore(body, tag)
            for ob in E.all_obligations[n0:]:
                ob.name = f'{tag}/{ob.name}'
            rep.take(E.all_obligations[n0:])
            raised = [o[1] for cx_, o in outs if o[0] == 'raise']
            if expect_raise:
                ok = len(raised) == len(outs) and all(r.cls == 'ValueError' for r in raised)
                rep.add(f'{tag}/raises.ValueError', 'raises', 'discharged' if ok else 'refuted', 'pyvc-exec',
                        model=None if ok else {'outcomes': [o[0] for _, o in outs]})
                return []
            ok = not raised
            rep.add(f'{tag}/no-raise', 'no-raise', 'discharged' if ok else 'refuted', 'pyvc-exec',
                    model=None if ok else {'raised': [f'{r.cls}: {r.msg}' for r in raised]})
            return results

        def prove(cx, name, goal, statement=None):
            t0 = time.time()
            s = z3.Solver()
            s.set('timeout', 30000)
            for ax in E.global_axioms:
                s.add(ax)
            for f in cx.pc:
                s.add(f)
            s.add(z3.Not(goal))
            r = s.check()
            st = 'discharged' if r == z3.unsat else ('refuted' if r == z3.sat else 'unknown')
            rep.add(name, 'post', st, 'z3-' + z3.get_version_string(), time.time() - t0, statement=statement or str(goal)[:200],
                    model=str(s.model())[:300] if r == z3.sat else None)

        # --- cache dispatch, rounding, initial tree, top-level law, entropy
        for cs_name, cs in (('None', None), ('0', 0), ('n>0', '$sym_pos_int')):
            kw = {'entropy': '$sym_int', 'cache_size': cs}
            if cs == '$sym_pos_int':
                kw['cache_size'] = '$sym_int'
            tag = f'{prefix}/BrownianInterval.__init__[cache_size={cs_name}]'
            res = run(tag, **kw)
            for (cx, obj, t0, t1, args) in res:
                c = obj.fields['_increment_and_space_time_levy_area_cache']
                if cs is None:
                    ok = isinstance(c, dict)
                elif cs == 0:
                    ok = isinstance(c, I.ObjVal) and c.cls.name == '_EmptyDict'
                else:
                    # symbolic positive size: the path with cache_size == 0 is a separate path; here require _LRUDict(max_size = cache_size)
                    ok = (isinstance(c, I.ObjVal) and c.cls.name in ('_LRUDict', '_EmptyDict') and
                          (c.cls.name == '_EmptyDict' or c.fields.get('_max_size') is args['cache_size']))
                rep.add(f'{tag}/post.cache-kind', 'post', 'discharged' if ok else 'refuted', 'pyvc-exec')
                ok = state['randint'] == 0
                rep.add(f'{tag}/post.no-global-randomness-when-entropy-given', 'post', 'discharged' if ok else 'refuted', 'pyvc-exec')
                W, H = obj.fields['_w_h']
                ent, pool = to_z3(args['entropy']), z3.IntVal(8)
                x0 = RANDN(SEED(ent, -1, -1, pool, 0))
                x1 = RANDN(SEED(ent, -1, -1, pool, 1))
                s = z3.Real('s')
                prove(cx, f'{tag}/post.top-level-W', z3.Exists([s], z3.And(s >= 0, s * s == t1.e - t0.e, to_z3(W) == x0 * s)),
                      'W(t0,t1) = sqrt(t1-t0) * N(0,1) drawn from word 0 of SeedSequence(entropy)')
                prove(cx, f'{tag}/post.top-level-H', z3.Exists([s], z3.And(s >= 0, s * s == (t1.e - t0.e) / 12, to_z3(H) == x1 * s)),
                      'H(t0,t1) = sqrt((t1-t0)/12) * N(0,1) drawn from word 1 of SeedSequence(entropy)')
                ok = z3.eq(z3.simplify(to_z3(obj.fields['_top_a_seed'])), z3.simplify(SEED(ent, -1, -1, pool, 2)))
                rep.add(f'{tag}/post.top-a-seed-is-word-2', 'post', 'discharged' if ok else 'refuted', 'pyvc-exec')
                ok = obj.fields['_last_interval'] is obj and obj.fields['_midway'] is None and obj.fields['_parent'] is None
                rep.add(f'{tag}/post.initial-tree-is-a-single-leaf', 'post', 'discharged' if ok else 'refuted', 'pyvc-exec')
                prove(cx, f'{tag}/post.start=t0,end=t1(tol=0)', z3.And(to_z3(obj.fields['_start']) == t0.e, to_z3(obj.fields['_end']) == t1.e))
        # --- user supplied W / H are stored unchanged
        tag = f'{prefix}/BrownianInterval.__init__[W,H supplied]'
        Wt = XT(np.array([[SV(z3.Real(f'Wu{i}{j}')) for j in range(3)] for i in range(2)], dtype=object))
        Ht = XT(np.array([[SV(z3.Real(f'Hu{i}{j}')) for j in range(3)] for i in range(2)], dtype=object))
        Wt.dtype = Ht.dtype = 'float64'
        for (cx, obj, t0, t1, args) in run(tag, entropy='$sym_int', W=Wt, H=Ht, size=None, dtype=None, device=None):
            ok = obj.fields['_w_h'][0] is Wt and obj.fields['_w_h'][1] is Ht and tuple(obj.fields['_size']) == (2, 3)
            rep.add(f'{tag}/post.stored-unchanged', 'post', 'discharged' if ok else 'refuted', 'pyvc-exec')
        # --- tolerance / rounding
        for tol, nd in ((Fraction(1, 1000), 3), (Fraction(1, 10 ** 6), 6), (Fraction(3, 10 ** 6), 5)):
            tag = f'{prefix}/BrownianInterval.__init__[tol={tol}]'
            for (cx, obj, t0, t1, args) in run(tag, entropy='$sym_int', tol=tol):
                prove(cx, f'{tag}/post.start=round(t0)', z3.And(to_z3(obj.fields['_start']) == ROUND(t0.e), to_z3(obj.fields['_end']) == ROUND(t1.e)))
        # --- rejected configurations
        run(f'{prefix}/BrownianInterval.__init__[t0>t1]', expect_raise='t0>t1', entropy='$sym_int')
        run(f'{prefix}/BrownianInterval.__init__[halfway_tree,tol=0]', expect_raise='tol', entropy='$sym_int', halfway_tree=True, tol=Fraction(0))
        run(f'{prefix}/BrownianInterval.__init__[halfway_tree,dt given]', expect_raise='dt', entropy='$sym_int', halfway_tree=True,
            tol=Fraction(1, 1000), dt='$sym_pos')
        run(f'{prefix}/BrownianInterval.__init__[tol<0]', expect_raise='tol', entropy='$sym_int', tol=Fraction(-1, 10))
        run(f'{prefix}/BrownianInterval.__init__[bad levy]', expect_raise='levy', entropy='$sym_int', levy_area_approximation='bogus')
        # --- entropy=None is the only use of global randomness
        tag = f'{prefix}/BrownianInterval.__init__[entropy=None]'
        for (cx, obj, t0, t1, args) in run(tag, entropy=None):
            ok = state['randint'] == 1
            rep.add(f'{tag}/post.global-randomness-only-here', 'post', 'discharged' if ok else 'refuted', 'pyvc-exec')
        # --- dt hint triggers the dependency tree exactly when not dyadic
        tag = f'{prefix}/BrownianInterval.__init__[dt given]'
        for (cx, obj, t0, t1, args) in run(tag, entropy='$sym_int', dt='$sym_pos'):
            ok = len(cx.state.get('deptree_calls', [])) == 1
            rep.add(f'{tag}/post.dependency-tree-created-from-the-hint', 'post', 'discharged' if ok else 'refuted', 'pyvc-exec')
    return Job('constructor', fn)


def job_tree_constructor(prefix):
    """BrownianTree / BrownianPath constructors: which BrownianInterval they build."""
    def fn(E, rep, tier):
        rep.under_contract(D + '.BrownianTree.__init__', D + '.BrownianPath.__init__')
        captured = []
        E.module(BI).globals['BrownianInterval'] = I.ExternFunc('BrownianInterval', lambda **kw: captured.append(kw) or 'interval')
        mod = E.module(D)
        mod.globals['brownian_interval'] = E.module(BI)
        cx = Ctx(E, [])
        w0 = XT(np.array([[SV(z3.Real('w0'))]], dtype=object))
        w0.dtype = 'float64'
        t0 = cx.real('t0')
        ent = cx.int('entropy')
        obj = E.instantiate(mod.globals['BrownianTree'], [], dict(t0=t0, w0=w0, entropy=ent), cx, 0)
        kw = captured[-1]
        ok = kw.get('halfway_tree') is True and kw.get('entropy') is ent and kw.get('W') is None and isinstance(kw.get('tol'), Fraction) and kw['tol'] > 0
        rep.add(f'{prefix}/BrownianTree.__init__/post.dyadic-tree-with-the-given-entropy', 'post', 'discharged' if ok else 'refuted', 'pyvc-exec',
                model=None if ok else {k: str(v) for k, v in kw.items()})
        w1 = XT(np.array([[SV(z3.Real('w1'))]], dtype=object))
        obj = E.instantiate(mod.globals['BrownianTree'], [], dict(t0=t0, w0=w0, t1=cx.real('t1'), w1=w1, entropy=ent), cx, 0)
        kw = captured[-1]
        Wk = kw.get('W')
        ok = isinstance(Wk, XT) and z3.is_true(z3.simplify(to_z3(Wk.a[0, 0]) == z3.Real('w1') - z3.Real('w0')))
        rep.add(f'{prefix}/BrownianTree.__init__/post.bridge-to-w1(W=w1-w0)', 'post', 'discharged' if ok else 'refuted', 'pyvc-exec')
        obj = E.instantiate(mod.globals['BrownianPath'], [], dict(t0=t0, w0=w0), cx, 0)
        kw = captured[-1]
        ok = kw.get('cache_size', 'missing') is None and tuple(kw.get('size')) == (1, 1)
        rep.add(f'{prefix}/BrownianPath.__init__/post.unbounded-cache,sample-shape-of-w0', 'post', 'discharged' if ok else 'refuted', 'pyvc-exec')
    return Job('tree-constructor', fn)
