"""Bounded stand-ins for the history-relational clauses of C05 / C06 (never counted as proved).

(A) symbolic histories: the real BrownianInterval.__call__ -> _loc -> _loc_inner -> _split -> _increment_and_* code is executed
    (no contracts, everything inlined) from the one-leaf tree on K symbolic queries followed by a repetition of the first one;
    every ordering of the query end points relative to the boundaries created so far is a separate path; obligation on each path:
    the repeated query returns the same terms.  Caches: none (cache_size=0), unbounded dict, LRU of size 1.
(B) dyadic mode on a concrete grid: for every target interval and every pair of histories from a fixed family, two objects with the
    same entropy return the same terms for the target (history independence), exact rational arithmetic, tol = 1e-3.
"""
import itertools
import time
from fractions import Fraction

import z3

from props.base import Job
from pyvc import interp as I
from pyvc.interp import Ctx, PyExc, PathEnd
from pyvc.values import SV, SB, OptVal, SymRef, to_z3
from contracts import tree as T
from contracts.tree import Z, R, B, RANDN
from contracts.tree_values import RandnContract

BI = 'torchsde._brownian.brownian_interval'


def concrete_world(E, cx, t0, t1, have_H, cache, halfway=False, tol=None):
    """World whose heap is the concrete one-leaf tree [t0, t1]."""
    w = T.World(E, cx)
    h = w.heap
    rv = lambda x: z3.RealVal(str(x))
    h.arr['_start'] = z3.Store(z3.K(Z, z3.RealVal(0)), 1, rv(t0))
    h.arr['_end'] = z3.Store(z3.K(Z, z3.RealVal(0)), 1, rv(t1))
    h.arr['_midway'] = z3.K(Z, z3.RealVal(0))
    h.arr['_midway#none'] = z3.K(Z, z3.BoolVal(True))
    for f in ('_parent', '_left_child', '_right_child', '_spawn_key', '_depth', '_W_seed', '_H_seed', '_left_a_seed', '_right_a_seed'):
        h.arr[f] = z3.K(Z, z3.IntVal(0))
    h.arr['_is_left'] = z3.K(Z, z3.BoolVal(False))
    h.nalloc = z3.IntVal(1)
    w.HW = z3.BoolVal(halfway)
    w.have_H = z3.BoolVal(have_H)
    w.grid = z3.BoolVal(tol is not None)
    mod = E.module(BI)
    if cache == 'none':
        w.cache = E.instantiate(mod.globals['_EmptyDict'], [], {}, cx, 0)
    elif cache == 'dict':
        w.cache = {}
    else:
        w.cache = E.instantiate(mod.globals['_LRUDict'], [], {'max_size': int(cache)}, cx, 0)
    w.extra.update({'_dt': None, '_num_evaluations': -100, '_average_dt': 0, '_tree_dt': Fraction(t1) - Fraction(t0), '_last_interval': w.topref,
                    '_size': 'size', '_dtype': 'dtype', '_device': 'device', '_have_A': False, '_levy_area_approximation': 'space-time' if have_H else 'none',
                    '_cache_size': None})
    w.extra['_tol'] = Fraction(0) if tol is None else Fraction(1, 10 ** tol)
    if tol is None:
        w.extra['$identity_round'] = True
    else:
        nd = tol

        class ConcreteRound:
            def __pyvc_call__(self, engine, args, kwargs, cx_, lineno):
                x = args[0]
                if isinstance(x, SV):
                    e = z3.simplify(x.e)
                    x = Fraction(str(e.as_fraction())) if z3.is_rational_value(e) else None
                    if x is None:
                        raise I.Unsupported('symbolic time in the concrete-grid job')
                return Fraction(round(Fraction(x), nd))
        w.extra['_round'] = ConcreteRound()
    return w


def setup_engine(E):
    from pyvc import tensor
    from contracts import tree_call as TC
    tensor.install(E)
    T.install(E)
    TC.install_generic_element_torch(E)
    E.contracts[RandnContract.qualname] = RandnContract()
    E.max_depth = 80
    E.skip_obligations = True      # no-raise / call-pre obligations of this code are discharged in C07; here: bounded execution only


def simplify_val(v):
    return None if v is None else z3.simplify(to_z3(v))


def call(E, cx, w, ta, tb, return_U):
    fn = E.function(BI + '.BrownianInterval.__call__')
    r = E.call_function(fn, [w.topref, ta, tb], {'return_U': return_U}, cx, 0, force_body=True)
    return r if isinstance(r, tuple) else (r, None)


def job_symbolic_histories(prefix, K, have_H_opts=(False, True), cache_opts=('none', 'dict', '1')):
    def fn(E, rep, tier):
        setup_engine(E)
        rep.bounded_mode = (f'histories of {K} symbolic in-range queries on the one-leaf tree [-1,1] followed by a repetition of the first; '
                            'every ordering of the end points is explored unless the time budget (240 s quick / 600 s thorough per configuration) is reached first - the note of each obligation says which; tol = 0, non-dyadic; caches none / dict / LRU(1)')
        rep.under_contract(*[BI + n for n in ('.BrownianInterval.__call__', '._Interval._loc', '._Interval._loc_inner', '._Interval._split',
                                              '._Interval._split_exact', '._Interval._increment_and_levy_area',
                                              '._Interval._increment_and_space_time_levy_area', '._LRUDict.__setitem__')])
        for have_H, cache in itertools.product(have_H_opts, cache_opts):
            tag = f'{prefix}/history[K={K},have_H={have_H},cache={cache}]'
            stats = {'paths': 0, 'bad': 0, 'unknown': 0, 'first_bad': None}
            t_start = time.time()

            def run(cx):
                w = concrete_world(E, cx, -1, 1, have_H, cache)
                qs = []
                for k in range(K):
                    a, b = cx.real(f'a{k}'), cx.real(f'b{k}')
                    cx.assume(z3.And(-1 <= a.e, a.e < b.e, b.e <= 1))
                    qs.append((a, b))
                first = call(E, cx, w, qs[0][0], qs[0][1], have_H)
                for (a, b) in qs[1:]:
                    call(E, cx, w, a, b, have_H)
                again = call(E, cx, w, qs[0][0], qs[0][1], have_H)
                stats['paths'] += 1
                for nm, x, y in (('W', first[0], again[0]), ('U', first[1], again[1])):
                    if x is None and y is None:
                        continue
                    ex, ey = simplify_val(x), simplify_val(y)
                    if z3.eq(ex, ey):
                        continue
                    s = z3.Solver()
                    s.set('timeout', 10000)
                    for ax in E.global_axioms:
                        s.add(ax)
                    for f in cx.pc:
                        s.add(f)
                    s.add(ex != ey)
                    r = s.check()
                    if r == z3.sat:
                        stats['bad'] += 1
                        if stats['first_bad'] is None:
                            m = s.model()
                            stats['first_bad'] = {str(d_.name()): str(m[d_]) for d_ in m.decls() if d_.arity() == 0 and str(d_.name())[0] in 'ab'}
                    elif r != z3.unsat:
                        stats['unknown'] += 1
                return None
            budget = 600 if tier == 'thorough' else 240
            try:
                E.explore(run, tag, deadline=time.time() + budget, keep=False)
            except PyExc as e:
                rep.add(f'{tag}/no-exception', 'no-raise', 'refuted', 'pyvc-exec', model={'raised': f'{e.cls}: {e.msg}'})
                continue
            st = 'discharged' if stats['bad'] == 0 and stats['unknown'] == 0 and stats['paths'] > 0 else ('refuted' if stats['bad'] else 'unknown')
            rep.add(f'{tag}/repeated-query-returns-the-same-terms', 'relational', st, 'pyvc-exec+z3', time.time() - t_start,
                    model=stats['first_bad'],
                    note=f"{stats['paths']} orderings explored" + (f"; exploration stopped at the time budget of {budget}s with {E.truncated} decision prefixes unexplored" if E.truncated else '; all orderings explored'),
                    statement='bm(a0,b0) asked again after the other queries returns identical W (and U)')
    return Job(f'symbolic-histories-K{K}-H{"".join(str(int(x)) for x in have_H_opts)}-{"+".join(cache_opts)}', fn)


def symbolic_history_jobs(prefix, K):
    return [job_symbolic_histories(prefix, K, (h,), (c,)) for h in (False, True) for c in ('none', 'dict', '1')]


GRID = [Fraction(k, 8) for k in range(9)]
HIST_POOL = [(Fraction(0), Fraction(1, 2)), (Fraction(1, 8), Fraction(5, 8)), (Fraction(1, 4), Fraction(3, 8)), (Fraction(1, 2), Fraction(1)),
             (Fraction(3, 8), Fraction(7, 8)), (Fraction(0), Fraction(1))]


def job_dyadic_grid(prefix, have_H_opts=(False, True)):
    def fn(E, rep, tier):
        setup_engine(E)
        rep.bounded_mode = ('dyadic mode (halfway_tree=True, tol=1e-3) on [0,1]; target intervals with end points on the 1/8 grid; histories = all sequences '
                            'of at most 2 queries from a pool of 6 intervals; two objects with the same symbolic entropy')
        rep.under_contract(BI + '._Interval._split', BI + '._Interval._loc_inner')
        targets = [(a, b) for a in GRID for b in GRID if a < b]
        if tier != 'thorough':
            targets = targets[::3]
        hists = [()] + [(h,) for h in HIST_POOL] + [(h1, h2) for h1 in HIST_POOL[:4] for h2 in HIST_POOL[2:] if h1 != h2]
        for have_H in have_H_opts:
            bad, n = [], 0
            t0 = time.time()
            for tgt in targets:
                ref = None
                for hist in hists:
                    cx = Ctx(E, [])
                    w = concrete_world(E, cx, 0, 1, have_H, 'dict', halfway=True, tol=3)
                    try:
                        for (a, b) in hist:
                            call(E, cx, w, a, b, have_H)
                        val = call(E, cx, w, tgt[0], tgt[1], have_H)
                    except PyExc as e:
                        bad.append((str(tgt), str(hist), f'{e.cls}: {e.msg}'))
                        continue
                    n += 1
                    cur = tuple(simplify_val(v) for v in val)
                    if ref is None:
                        ref = cur
                        continue
                    for x, y in zip(ref, cur):
                        if (x is None) != (y is None) or (x is not None and not z3.eq(x, y)):
                            s = z3.Solver()
                            s.set('timeout', 10000)
                            for ax in E.global_axioms:
                                s.add(ax)
                            s.add(x != y)
                            if s.check() != z3.unsat:
                                bad.append((str(tgt), str(hist), 'value differs from the value after the empty history'))
            tag = f'{prefix}/dyadic[have_H={have_H}]'
            rep.add(f'{tag}/value-independent-of-history', 'relational', 'discharged' if not bad else 'refuted', 'pyvc-exec+z3', time.time() - t0,
                    model=None if not bad else {'first': bad[0]}, note=f'{n} (target, history) executions',
                    statement='in dyadic mode bm(a,b) has the same value after every history in the family')
    return Job('dyadic-grid-H' + ''.join(str(int(x)) for x in have_H_opts), fn)
