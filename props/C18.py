"""C18 - logqp returns the path-wise KL integrand and does not disturb the solution."""
import time
from fractions import Fraction

import numpy as np
import z3

from props.base import Job, T1, T5, T6, T7
from props import x_common as X
from pyvc import harness as H, jets, tensor, interp as I
from pyvc.contract import Contract
from pyvc.interp import Ctx, PyExc
from pyvc.poly import Poly
from pyvc.tensor import XT
from pyvc.values import SV, to_z3

LEVEL = 'proof'
TRUSTED = ['pyvc interpreter, torch element models, polynomial kernel (T6)', 'pinv(g) g = I for full column rank (T5)']
ASSUMPTIONS = [T1, T5, T6, T7, 'stable_division is used inside its guard |g| > eps (the b = 0 corner divides by eps*sign(0) = 0: outside the precondition)']
NOT_DECIDED = ['dimension-bounded (B<=2, d=2, m<=2, T=3 output times)']
EXPLANATION = ('(1) parse_return: differencing and shapes; (2) SDELogqp augmentation against its definition, stateless (two calls at different '
               'times on one object); (3) non-interference: the first d components of every real solver step on the augmented SDE equal the '
               'un-augmented step; (4) the last component advances by dt * sum_s alpha_s phi_s with non-negative weights read from the code; '
               '(5) exact case f - h = g c: increment exactly |c|^2/2 * dt for every solver (weights sum to one); general noise via pinv axiom in z3.')
BS = 'torchsde._core.base_sde'


class StableDivision(Contract):
    """misc.stable_division(a, b) inside its guard: a / b."""
    qualname = 'torchsde._core.misc.stable_division'

    def apply(self, E, cx, a, lineno):
        # call-pre: |b| > epsilon.  The only hypothesis available for it is the stated assumption on the user's diffusion (every entry of a
        # diagonal g has |g_i| > 1e-7), so it is discharged exactly when every divisor element is such an entry; any other divisor
        # (e.g. a squared column norm, whose guard |g|^2 > 1e-7 excludes ordinary full-column-rank diffusions) is not covered.
        b = a['b']
        def is_entry(e):
            p = Poly.lift(e)
            if p is None or len(p.t) != 1:
                return False
            (mono, coeff), = p.t.items()
            return len(mono) == 1 and mono[0][1] == 1 and coeff in (1, -1) and str(mono[0][0]).startswith('G')
        if not (isinstance(b, XT) and all(is_entry(e) for e in b.a.reshape(-1))):
            E.frame_violations.append({'name': f'C18/stable_division/call-pre.divisor-inside-guard(|b|>1e-7)@L{lineno}', 'kind': 'call-pre', 'lineno': lineno,
                                       'what': 'stable_division clamps divisors with |b| <= 1e-7; the assumption |g_i| > 1e-7 on the entries of a diagonal diffusion '
                                               'discharges the guard only when the divisor is such an entry; here the divisor is ' + repr(b.a.reshape(-1)[0])[:120]})
            if isinstance(b, XT) and any(len(Poly.lift(e).t) != 1 for e in b.a.reshape(-1)):
                # the polynomial kernel cannot divide by a non-monomial: continue with opaque quotients (the violation is already recorded)
                shape = np.broadcast(a['a'].a, b.a).shape
                q = np.empty(shape, dtype=object)
                for i, idx in enumerate(np.ndindex(*shape)):
                    q[idx] = Poly.var(f'Qsd{lineno}_{i}')
                return XT(q)
        return a['a'] / a['b']


def install_pinverse():
    """g.pinverse() as a matrix of atoms named by the normal form of g (same matrix -> same pseudo-inverse)."""
    def pinv(x):
        Bn, d, m = x.a.shape
        out = np.empty((Bn, m, d), dtype=object)
        for b in range(Bn):
            import hashlib
            key = 'P[' + hashlib.md5(repr(tuple(Poly.lift(e).key() for e in x.a[b].reshape(-1))).encode()).hexdigest()[:10] + ']'
            for i in range(m):
                for j in range(d):
                    out[b, i, j] = Poly.var(f'{key}_{i}{j}')
        return XT(out)
    tensor.STATE['pinverse'] = pinv


def logqp_sde(E, S, c=None):
    """SDELogqp around the user SDE of S; prior drift h is uninterpreted, or f - g c when c is given (diagonal noise)."""
    d = S.d
    if c is None:
        h = jets.DynJetFunction('Hh', d, (d,))
    else:
        class HExact:
            def __pyvc_call__(self, engine, args, kwargs, cx, lineno):
                t, y = args
                f, g = S.f.evaluate(t, y), S.g.evaluate(t, y)
                return f - g * c
        h = HExact()
    user = H.make_user_sde(S.noise, S.sde_type, {'f': S.f, 'g': S.g, 'h': h})
    E.contracts[StableDivision.qualname] = StableDivision()
    install_pinverse()
    cls = E.module(BS).globals['SDELogqp']
    lq = E.instantiate(cls, [user], {}, S.cx, 0)
    return lq, H.forward_sde(E, S.cx, lq)


def job_parse_return(E, rep, tier):
    rep.under_contract('torchsde._core.sdeint.parse_return')
    fn = E.module('torchsde._core.sdeint').globals['parse_return']
    cx = Ctx(E, [])
    T_, B, d = 3, 2, 2
    ys = X.symt('ys', (T_, B, d + 1))
    y0 = X.symt('y0', (B, d + 1))
    for extra in (False, True):
        out = E.call(fn, [y0, ys, ('extra-state',), extra, True], {}, cx, 0)
        tag = f'C18/parse_return[logqp,extra={extra}]'
        ok = isinstance(out, tuple) and len(out) == (3 if extra else 2)
        rep.add(f'{tag}/post.arity', 'post', 'discharged' if ok else 'refuted', 'pyvc-exec')
        sol, lr = out[0], out[1]
        ok = tuple(sol.a.shape) == (T_, B, d) and tuple(lr.a.shape) == (T_ - 1, B)
        rep.add(f'{tag}/post.shapes((T,B,d),(T-1,B))', 'post', 'discharged' if ok else 'refuted', 'pyvc-exec', model=None if ok else {'shapes': [str(sol.a.shape), str(lr.a.shape)]})
        ok1, why1 = X.arr_equal(sol, XT(ys.a[:, :, :d]))
        rep.add(f'{tag}/post.solution-is-first-d-columns', 'post', 'discharged' if ok1 else 'refuted', 'poly-normal-form', model=None if ok1 else {'diff': why1})
        want = ys.a[1:, :, d] - ys.a[:-1, :, d]
        ok2, why2 = X.arr_equal(lr, XT(want))
        rep.add(f'{tag}/post.increments=L[i+1]-L[i]', 'post', 'discharged' if ok2 else 'refuted', 'poly-normal-form', model=None if ok2 else {'diff': why2})
    out = E.call(fn, [y0, ys, (), False, False], {}, cx, 0)
    rep.add('C18/parse_return[no logqp]/post.returns-ys-unchanged', 'post', 'discharged' if out is ys else 'refuted', 'pyvc-exec')


def job_augmentation(E, rep, tier):
    rep.under_contract(*[BS + '.SDELogqp.' + n for n in ('__init__', 'f_diagonal', 'g_diagonal', 'f_and_g_diagonal', 'f_general', 'g_general', 'f_and_g_general')])
    for noise in ('diagonal', 'general', 'additive', 'scalar'):
        B, d = 2, 2
        m = 1 if noise == 'scalar' else (2 if noise == 'diagonal' else 3)      # d != m for the matrix noise types: no dimension coincidence
        S = X.setup(E, noise, 'ito', B, d, m, 'none')
        lq, _ = logqp_sde(E, S)
        tag = f'C18/SDELogqp[{noise}]'
        rep.bounded.append({'what': tag, 'bound': f'dimension-bounded B={B}, d={d}, m={m}'})
        before = dict(lq.fields)
        l = X.symt('l', (B, 1))
        yaug = XT(np.concatenate([S.y0.a, l.a], axis=1))
        hfun = lq.fields['_base_h']
        for k, t in enumerate((S.t0, S.t0 + S.dt)):          # two calls at different times on the same object
            f = E.call(E.get_attr(lq, 'f', S.cx, 0), [t, yaug], {}, S.cx, 0)
            g = E.call(E.get_attr(lq, 'g', S.cx, 0), [t, yaug], {}, S.cx, 0)
            f2, g2 = E.call(E.get_attr(lq, 'f_and_g', S.cx, 0), [t, yaug], {}, S.cx, 0)
            bf, bg, bh = S.f.evaluate(t, S.y0), S.g.evaluate(t, S.y0), hfun.evaluate(t, S.y0)
            if noise == 'diagonal':
                u = (bf - bh) / bg
            else:
                P = tensor.STATE['pinverse'](bg)
                u = tensor.t_bmm(P, (bf - bh).m_unsqueeze(-1)).m_squeeze(-1)
            want_last = (u * u).m_sum(1, True) * Fraction(1, 2)
            want_f = XT(np.concatenate([bf.a, want_last.a], axis=1))
            zeros = np.full((B, 1) if noise == 'diagonal' else (B, 1, m), Fraction(0), dtype=object)
            want_g = XT(np.concatenate([bg.a, zeros], axis=1))
            for nm, got, want in (('f', f, want_f), ('g', g, want_g), ('f_and_g.f', f2, want_f), ('f_and_g.g', g2, want_g)):
                ok, why = X.arr_equal(got, want)
                rep.add(f'{tag}/{nm}@t{k}.post.definition', 'post', 'discharged' if ok else 'refuted', 'poly-normal-form', model=None if ok else {'diff': why},
                        statement='(f, 1/2 |g^+ (f-h)|^2) and (g, 0) evaluated at the first d components of the augmented state')
        ok = lq.fields == before
        rep.add(f'{tag}/frame.stateless', 'frame', 'discharged' if ok else 'refuted', 'pyvc-exec',
                model=None if ok else {'new or changed attributes': sorted(set(lq.fields) ^ set(before)) or 'values changed'})


def solver_configs():
    out = []
    for method in X.METHODS:
        for noise in ('diagonal', 'general', 'additive', 'scalar'):
            if method in ('milstein', 'srk') and noise == 'general':
                continue
            out.append((method, noise))
    return out


def make_step_job(method, noise):
    def fn(E, rep, tier):
        B, d = 1, 2
        m = 1 if noise == 'scalar' else 2
        sts = ['ito', 'stratonovich'] if method == 'milstein' else [X.SDE_TYPE[method]]
        for st in sts:
            tag = f'C18/{method}[{st},{noise},B={B},d={d},m={m}]'
            rep.bounded.append({'what': tag, 'bound': f'dimension-bounded B={B}, d={d}, m={m}'})
            levy = X.levy_for(method)
            S = X.setup(E, noise, st, B, d, m, levy)
            maug = d + 1 if noise == 'diagonal' else m
            # augmented Brownian increment: for diagonal noise the extra state has its own (unused) channel
            def widen(x, pre):
                if x is None or noise != 'diagonal':
                    return x
                return XT(np.concatenate([x.a, X.symt(pre, (B, 1)).a], axis=1))
            dWa, Ua = widen(S.dW, 'dWx'), widen(S.U, 'Ux')
            Aa = S.A
            if noise == 'diagonal' and S.A is not None:
                a = np.full((B, maug, maug), Poly(), dtype=object)
                a[:, :d, :d] = S.A.a
                Aa = XT(a)
            bm_aug = H.BMStub((B, maug), levy, lambda ta, tb: (dWa, Ua, Aa))
            try:
                _, y1, _ = X.run_step(S, method)
            except PyExc as e:
                if e.cls == 'ValueError':
                    continue
                raise
            lq, lsde = logqp_sde(E, S)
            l0 = X.symt('l', (B, 1))
            yaug = XT(np.concatenate([S.y0.a, l0.a], axis=1))
            _, y1a, _ = X.run_step(S, method, sde=lsde, bm=bm_aug, y0=yaug)
            ok, why = X.arr_equal(XT(y1a.a[:, :d]), y1)
            rep.add(f'{tag}/post.state-undisturbed', 'post', 'discharged' if ok else 'refuted', 'poly-normal-form', model=None if ok else {'diff': why},
                    statement='first d components of the augmented step == the un-augmented step under the same noise')
            # last component against the *contract* of the augmentation (drift (f, phi), diffusion (g, 0), phi >= 0 opaque):
            # L(t1) - L(t0) = dt * sum_s alpha_s phi(stage s) with non-negative weights alpha_s read from the solver code
            phi = jets.DynJetFunction('Phi', d, (1,))

            class AugF:
                def __pyvc_call__(self, engine, args, kwargs, cx, lineno):
                    t, y = args
                    yb = XT(y.a[:, :d], rg=y.rg, leaf=y.leaf)
                    return XT(np.concatenate([S.f.evaluate(t, yb).a, phi.evaluate(t, yb).a], axis=1))

            class AugG:
                def __pyvc_call__(self, engine, args, kwargs, cx, lineno):
                    t, y = args
                    yb = XT(y.a[:, :d], rg=y.rg, leaf=y.leaf)
                    g = S.g.evaluate(t, yb)
                    z = np.full((B, 1) if noise == 'diagonal' else (B, 1, m), Fraction(0), dtype=object)
                    return XT(np.concatenate([g.a, z], axis=1), rg=g.rg, leaf=g.leaf)
            aug_user = H.make_user_sde(noise, st, {'f': AugF(), 'g': AugG()})
            aug_sde = H.forward_sde(E, S.cx, aug_user)
            _, y1c, _ = X.run_step(S, method, sde=aug_sde, bm=bm_aug, y0=yaug)
            inc = Poly.lift(tensor.el_detach(y1c.a[0, d])) - Poly.lift(l0.a[0, 0])
            bad = []
            wsum = Fraction(0)
            for mono, coef in inc.t.items():
                names = dict(mono)
                phis = [v for v in names if v.startswith('Phi')]
                if names.get('dt', 0) != 1 or len(phis) != 1 or names[phis[0]] != 1 or len(names) != 2 or coef < 0:
                    bad.append((mono, str(coef)))
                wsum += coef
            rep.add(f'{tag}/post.increment=dt*sum(alpha_s*phi_s),alpha_s>=0', 'post', 'discharged' if not bad else 'refuted', 'poly-normal-form',
                    model=None if not bad else {'terms': str(bad)[:300]},
                    statement='with the augmentation replaced by its contract, L(t1)-L(t0) = dt * (non-negative combination of the integrand at the stages)')
            rep.add(f'{tag}/post.stage-weights-sum-to-one', 'post', 'discharged' if wsum == 1 else 'refuted', 'poly-normal-form',
                    model=None if wsum == 1 else {'sum of weights': str(wsum)})
            # exact case (diagonal noise): h = f - g c  =>  increment == |c|^2/2 * dt exactly
            if noise == 'diagonal':
                c = X.symt('c', (1, d))
                lq2, lsde2 = logqp_sde(E, S, c=c)
                _, y1e, _ = X.run_step(S, method, sde=lsde2, bm=bm_aug, y0=yaug)
                want = Poly.lift(l0.a[0, 0]) + Fraction(1, 2) * sum((Poly.lift(c.a[0, i]) ** 2 for i in range(d)), Poly()) * S.dt
                rep.poly_zero(f'{tag}/post.exact-case', Poly.lift(tensor.el_detach(y1e.a[0, d])) - want,
                              statement='f - h = g c  =>  L(t1) - L(t0) == |c|^2 / 2 * dt (stage weights sum to one)')
    return Job(f'step-{method}-{noise}', fn)


def job_general_exact(E, rep, tier):
    """General noise exact case in z3: P g = I (T5) and f - h = g c  =>  1/2 |P (f - h)|^2 = 1/2 |c|^2."""
    t0 = time.time()
    d, m = 2, 2
    P = [[z3.Real(f'P{i}{j}') for j in range(d)] for i in range(m)]
    G = [[z3.Real(f'G{i}{j}') for j in range(m)] for i in range(d)]
    c = [z3.Real(f'c{j}') for j in range(m)]
    hyps = []
    for i in range(m):
        for j in range(m):
            hyps.append(sum(P[i][k] * G[k][j] for k in range(d)) == (1 if i == j else 0))
    fh = [sum(G[i][j] * c[j] for j in range(m)) for i in range(d)]
    u = [sum(P[i][k] * fh[k] for k in range(d)) for i in range(m)]
    s = z3.Solver()
    s.set('timeout', 30000)
    for h_ in hyps:
        s.add(h_)
    s.add(z3.Not(z3.And(*[u[i] == c[i] for i in range(m)])))
    r = s.check()
    st = 'discharged' if r == z3.unsat else ('refuted' if r == z3.sat else 'unknown')
    rep.add('C18/lemma.general-noise-exact-case(u=c)', 'lemma', st, 'z3-' + z3.get_version_string(), time.time() - t0,
            statement='pinv(g) g = I and f - h = g c  =>  pinv(g)(f - h) = c  (d = m = 2)')
    rep.bounded.append({'what': 'C18/lemma.general-noise-exact-case', 'bound': 'd = m = 2'})


def job_stable_division(E, rep, tier):
    """Real body of misc.stable_division on explicit tensors with real elements."""
    rep.under_contract('torchsde._core.misc.stable_division')
    fn = E.module('torchsde._core.misc').globals['stable_division']

    def run(cx):
        # two batch rows with independent elements: the post-conditions are element-wise (no element of the result depends on another row)
        a = XT(np.array([[SV(cx.fresh('a0'))], [SV(cx.fresh('a1'))]], dtype=object))
        b = XT(np.array([[SV(cx.fresh('b0'))], [SV(cx.fresh('b1'))]], dtype=object))
        r = E.call_function(fn, [a, b], {}, cx, 0, force_body=True)
        eps = z3.RealVal('1/10000000')
        for k in (0, 1):
            av, bv, rv = to_z3(a.a[k, 0]), to_z3(b.a[k, 0]), to_z3(r.a[k, 0])
            absb = z3.If(bv >= 0, bv, -bv)
            cx.oblige(f'C18/stable_division/post.inside-guard[row {k}]', z3.Implies(absb > eps, rv == av / bv), 'post')
            cx.oblige(f'C18/stable_division/post.clamped[row {k}]', z3.Implies(z3.And(absb <= eps, bv != 0), rv == av / (eps * z3.If(bv > 0, 1, -1))), 'post')
        return r
    n0 = len(E.all_obligations)
    E.explore(run, 'stable_division')
    rep.take(E.all_obligations[n0:])


def jobs(tier):
    out = [Job('parse_return', job_parse_return), Job('augmentation', job_augmentation), Job('general-exact', job_general_exact),
           Job('stable_division', job_stable_division)]
    out += [make_step_job(m, n) for (m, n) in solver_configs()]
    return out


def canaries(tier):
    return [
        {'name': 'increments-not-differenced', 'job': 'parse_return',
         'patches': [('torchsde._core.sdeint', '[log_ratio_t_plus_1 - log_ratio_t\n', '[log_ratio_t_plus_1\n')]},
        {'name': 'logqp-integrand-missing-half', 'job': 'step-heun-diagonal',
         'patches': [(BS, "        u = misc.stable_division(f - h, g)\n        f_logqp = .5 * (u ** 2).sum(dim=1, keepdim=True)\n        g_logqp = y.new_zeros(size=(y.size(0), 1))\n", "        u = misc.stable_division(f - h, g)\n        f_logqp = (u ** 2).sum(dim=1, keepdim=True)\n        g_logqp = y.new_zeros(size=(y.size(0), 1))\n")]},
        {'name': 'pinverse-cached-across-times', 'job': 'augmentation',
         'patches': [(BS, "    def f_general(self, t, y: Tensor):\n        y = y[:, :-1]\n        f, g, h = self._base_f(t, y), self._base_g(t, y), self._base_h(t, y)\n        u = misc.batch_mvp(g.pinverse(), f - h)",
                      "    def f_general(self, t, y: Tensor):\n        y = y[:, :-1]\n        f, g, h = self._base_f(t, y), self._base_g(t, y), self._base_h(t, y)\n        if not hasattr(self, '_g_pinv'):\n            self._g_pinv = g.pinverse()\n        u = misc.batch_mvp(self._g_pinv, f - h)")]},
        {'name': 'augmented-state-feeds-back', 'job': 'step-euler-diagonal',
         'patches': [(BS, "    def f_and_g_diagonal(self, t, y: Tensor):\n        y = y[:, :-1]\n        f, g, h = self._base_f(t, y), self._base_g(t, y), self._base_h(t, y)\n",
                      "    def f_and_g_diagonal(self, t, y: Tensor):\n        last = y[:, -1:]\n        y = y[:, :-1]\n        f, g, h = self._base_f(t, y) + last, self._base_g(t, y), self._base_h(t, y)\n")]},
    ]


def native_replay(ob):
    from props.base import run_native
    return run_native('c18')
