"""C05 - repeated queries return bit-identical values whatever happened in between.

"Bit-identical" is decided as: the second evaluation performs the same primitive operations on the same operands
(T1/T2).  Three contract facts give that: (1) stability -- every tree-mutating function, including the dependency-tree refinement, only refines leaves
(`refines` frame, for all histories); (2) value determinism and cache transparency -- a node's (W, H) is a function of
stable fields and seeded noise only, the caches may forget but never alter; (3) wrappers forward queries to the same
object without writing to it;  (4) value-level history independence over the reals -- the ghost-path chain (the same contracts that
C03 uses, here with prefix C05): every call returns W = Wc(round(tb)) - Wc(round(ta)) and U = V(tb) - V(ta) - (tb-ta) Wc(ta) for a
ghost path (Wc, V) that no tree-mutating function changes at a point it has already fixed (`ghost.stable`), so a repeated query
returns the same real value whatever was asked in between, from any start node.  What (4) does not give is that the *floating-point*
decomposition (node list, order of additions) is the same: that relational clause is NOT decided here (see NOT_DECIDED)."""
from props.base import Job, T1, T2, T6
from props import tree_jobs as TJ
from props import wrapper_jobs as WJ
from props import history_jobs as HJ
from pyvc.contract import verify
from pyvc.interp import Ctx, PyExc
from pyvc import interp as I
from contracts import lru

LEVEL = 'proof'
TRUSTED = ['pyvc interpreter + heap model (T6)', 'z3 5.1.0 / cvc5 1.0.3 / z3 4.8.12']
ASSUMPTIONS = [T1, T2, T6]
NOT_DECIDED = ['value-level history independence over the reals is proved (ghost-path chain); decomposition determinism at the level of '
               'floating-point terms (the same query is answered by the same node list after arbitrary refinement, from any start '
               'node) is not proved: it needs the laminar-family induction over pairs of nodes. The local ingredients (refines frame, laminar '
               'invariants LD/NB, contiguity) are proved; the closing step is served by a BOUNDED stand-in (all histories of 2 symbolic queries, '
               '3 in the thorough tier, every ordering of the end points, three cache kinds), reported under bounded_stand_ins and not counted as proved']
EXPLANATION = __doc__
BI = 'torchsde._brownian.brownian_interval'


def job_lru(E, rep, tier):
    rep.under_contract(BI + '._LRUDict.__setitem__')
    rep.take(verify(E, lru.LRUSetItem(), label='C05/_LRUDict.__setitem__')['obligations'])


def job_emptydict(E, rep, tier):
    """_EmptyDict stores nothing and always misses (cache_size = 0)."""
    rep.under_contract(BI + '._EmptyDict.__setitem__', BI + '._EmptyDict.__getitem__')
    cx = Ctx(E, [])
    cls = E.module(BI).globals['_EmptyDict']
    obj = E.instantiate(cls, [], {}, cx, 0)
    before = dict(obj.fields)
    E.set_item(obj, 'k', 'v', cx, 0)
    ok = obj.fields == before
    rep.add('C05/_EmptyDict.__setitem__/frame.stores-nothing', 'frame', 'discharged' if ok else 'refuted', 'pyvc-exec')
    try:
        E.get_item(obj, 'k', cx, 0)
        rep.add('C05/_EmptyDict.__getitem__/raises.KeyError', 'raises', 'refuted', 'pyvc-exec')
    except PyExc as e:
        rep.add('C05/_EmptyDict.__getitem__/raises.KeyError', 'raises', 'discharged' if e.cls == 'KeyError' else 'refuted', 'pyvc-exec')


def _deptree():
    from props import C07
    return C07.make_deptree_job('C05')


def jobs(tier):
    P = 'C05'
    return [TJ.make(P, 'split_exact', False), TJ.make(P, 'split', False), TJ.make(P, 'loc_inner', False), TJ.make(P, 'loc', False),
            TJ.make(P, 'split_exact', True), TJ.make(P, 'split', True), TJ.make(P, 'loc_inner', True), TJ.make(P, 'loc', True), TJ.make(P, 'call', True),
            TJ.job_pure_lemmas(P), Job('dependency-tree', _deptree()),
            TJ.job_split_algebra(P, ()), Job('lru', job_lru), Job('emptydict', job_emptydict), WJ.job_wrappers(P)] + \
        HJ.symbolic_history_jobs(P, 2) + (HJ.symbolic_history_jobs(P, 3) if tier == 'thorough' else [])


def canaries(tier):
    B = BI
    return [
        {'name': 'resplit-existing-node', 'job': 'loc_inner', 'patches': [(B, '        if self._midway is None:\n            # It\'s up to us.', '        if not self._midway:\n            # It\'s up to us.')]},
        {'name': 'noise-from-own-seed', 'job': 'split-algebra', 'patches': [(B, '                X1 = parent._randn(parent._W_seed)\n', '                X1 = parent._randn(self._W_seed)\n')]},
        {'name': 'lru-evicts-newest', 'job': 'lru', 'patches': [(B, 'del self[self._keys.pop(0)]', 'del self[self._keys.pop()]')]},
        {'name': 'wrapper-adds-w0-in-place', 'job': 'wrappers', 'patches': [('torchsde._brownian.derived', "        out = self._interval(t, tb, return_U=return_U, return_A=return_A)\n        if tb is None and not return_U and not return_A:\n            out = out + self._w0\n        return out\n\n    def __repr__(self):\n        return f\"{self.__class__.__name__}(interval={self._interval})\"\n\n    @property\n    def dtype(self):\n        return self._interval.dtype\n\n    @property\n    def device(self):\n        return self._interval.device\n\n    @property\n    def shape(self):\n        return self._interval.shape\n\n    @property\n    def levy_area_approximation(self):\n        return self._interval.levy_area_approximation\n\n\ndef brownian_interval_like", "        out = self._interval(t, tb, return_U=return_U, return_A=return_A)\n        if tb is None and not return_U and not return_A:\n            out += self._w0\n        return out\n\n    def __repr__(self):\n        return f\"{self.__class__.__name__}(interval={self._interval})\"\n\n    @property\n    def dtype(self):\n        return self._interval.dtype\n\n    @property\n    def device(self):\n        return self._interval.device\n\n    @property\n    def shape(self):\n        return self._interval.shape\n\n    @property\n    def levy_area_approximation(self):\n        return self._interval.levy_area_approximation\n\n\ndef brownian_interval_like")]},
    ]


def native_replay(ob):
    from props.base import run_native, model_floats
    if '/history[' in ob['name'] and ob.get('model'):
        m = model_floats(ob['model'])
        qs = []
        k = 0
        while any(n.startswith(f'a{k}!') for n in m):
            a = [v for n, v in m.items() if n.startswith(f'a{k}!')][0]
            b = [v for n, v in m.items() if n.startswith(f'b{k}!')][0]
            qs.append([a, b])
            k += 1
        if qs:
            r = run_native('history', {'queries': qs}, timeout=120)
            if r.get('reproduced'):
                return r
    return run_native('c03', timeout=600, hang_is_failure=True)
