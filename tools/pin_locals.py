#!/usr/bin/env python3
"""Regenerate contracts/pinned_locals.json from the current /repo (run on the pinned tree only)."""
import json, os, sys
ROOT = os.path.dirname(os.path.dirname(os.path.abspath(__file__)))
sys.path.insert(0, ROOT)
from pyvc.loader import Repo
from pyvc import alpha
d = alpha.pin(Repo())
json.dump(d, open(os.path.join(ROOT, 'contracts', 'pinned_locals.json'), 'w'), indent=0, sort_keys=True)
print(len(d), 'functions pinned')
