#!/usr/bin/env python3
"""keep_seed.py <label> <property> <src-dir> <needs...> : store a confirmed seeded change under /verif/seeded/<label>/"""
import json, os, shutil, sys
label, prop, src = sys.argv[1:4]
needs = ' '.join(sys.argv[4:])
root = os.path.dirname(os.path.dirname(os.path.abspath(__file__)))
dst = os.path.join(root, 'seeded', label)
os.makedirs(dst, exist_ok=True)
for f in ('patch.diff', 'demo.py', 'notes.md'):
    if os.path.exists(os.path.join(src, f)):
        shutil.copy(os.path.join(src, f), os.path.join(dst, f))
conf = ''
log = f'/tmp/confirm_all.log'
for l in open(log):
    if l.startswith(label.split('-')[0] + ':') or l.startswith(label + ':'):
        conf = l.strip()
meta = {'breaks_property': prop, 'needs_to_manifest': needs,
        'confirmed_by': 'tools/confirm_seed.sh in a scratch worktree of /repo HEAD: demo exits 1 with the patch, the full test suite '
                        '(PYTHONPATH=<worktree>, pytest -n 8) passes with the patch, demo exits 0 without it',
        'confirmation_result': conf,
        'apply': 'git -C /repo apply /verif/seeded/%s/patch.diff ; ./check %s ; git -C /repo checkout -- .' % (label, prop)}
json.dump(meta, open(os.path.join(dst, 'meta.json'), 'w'), indent=1)
print('kept', dst, conf)
