#!/usr/bin/env python3
"""Regenerate MANIFEST.json from the table below (keeps it valid at all times)."""
import json, os
ROOT = os.path.dirname(os.path.dirname(os.path.abspath(__file__)))
props = [json.loads(l) for l in open(os.path.join(ROOT, 'properties.jsonl'))]
TECH = 'contract-based deductive verification: pyvc VC generation from the real AST + {engine}'
CHECKS = {
    'C01': dict(cat='proof', ref='DESIGN.md section 3 C01',
                text='Lemma over contracts: for every accepted (method, sde_type, noise_type, options) the order the real solver object advertises does not exceed the largest order whose local-expansion conditions are proved from the real step(); the convergence theorem itself (Milstein) is trusted. Known finding: grad-free Stratonovich Milstein.',
                note='T1,T3,T5,T6,T7; Milstein fundamental theorem trusted; composition/one-path hypotheses imported from C12/C03/C04; d=2 parts dimension-bounded; adaptive clause not decided',
                tech=TECH.format(engine='exact polynomial normal form over jets (graded eps-series), z3 for counter-models')),
    'C02': dict(cat='proof', ref='DESIGN.md section 3 C02',
                text='Postcondition of every real solver step(): coefficients of the eps-graded expansion equal the Ito/Stratonovich-Taylor expansion generated from L0, Lj identically up to eps^(2p) and in expectation at eps^(2p+1), p the advertised order; generic in f, g (jets), base point, h, dW, U. Scalar SDE unbounded; d=m=2 dimension-bounded.',
                note='T1,T3,T5,T6,T7; autograd axiomatised as formal differentiation; d=m=2 results are labelled bounded',
                tech=TECH.format(engine='exact polynomial normal form over jets (graded eps-series), z3 for counter-models')),
}
CHECKS['C12'] = dict(cat='proof', ref='DESIGN.md section 3 C12',
    text='Hoare-style proof of the real fixed-step integrate(): inductive loop invariants tie the carried state to the ghost grid G(k)=min(G(k-1)+dt, ts[-1]) and ghost trajectory; postcondition: ys[0]=y0, every output is the linear interpolant of the two neighbouring grid states, the run ends at ts[-1]; linear_interp proved against its formula; grid lemmas and output-time invariance as z3 lemmas. Unbounded in len(ts), number of steps, dt.',
    note='T1 (times are reals), step uninterpreted (any solver), dt>0 precondition; result dtype and the Archimedean termination argument are not decided',
    tech=TECH.format(engine='z3 (quantified invariants over ghost functions), cvc5/z3-4.8 second opinion'))
CHECKS['C13'] = dict(cat='proof', ref='DESIGN.md section 3 C13',
    text='(1) frame obligations on every real solver step (writes nothing, one Brownian query over (t0,t1)); (2) integrate() proved with UNINTERPRETED time arithmetic so equality means same operations on same operands; (3) relational loop-body obligation: executions agreeing on (curr_t, curr_y, curr_extra), self and ts[-1] and on nothing else agree afterwards (no hidden state); (4) chunk lemma by induction, z3.',
    note='T1/T2: bit-identity decided as operation-sequence identity; repeated Brownian queries identical (C05); fadd(a,dt)>a assumed',
    tech=TECH.format(engine='z3 with uninterpreted float arithmetic + relational (2-safety) loop-body obligation'))
CHECKS['C14'] = dict(cat='proof', ref='DESIGN.md section 3 C14',
    text='Hoare-style proof of the real adaptive arm of integrate(): invariant over a ghost accepted trajectory (each accepted step is the two-half-step map, contiguous, strictly advancing, inside [ts[0], ts[-1]], ends at ts[-1]); per-trial obligations (accept iff err<=1 or step<=dt_min, rejected => state unchanged and strictly smaller step >= dt_min, trial length >= dt_min or clipped, three Brownian queries, the error estimate is compute_error(full step, two half steps, self.rtol, self.atol)); compute_error and the property-level clauses of update_step_size proved against their contracts; helper clauses of the controller contract are only the hypothesis of the modular proof, and the same loop obligations are also discharged with the real controller body inlined.',
    note='T1; pow(x,a) uninterpreted with monotonicity axioms (T5); termination reduced to proved progress facts; "tighter tolerances reduce true error" not decided',
    tech=TECH.format(engine='z3 (nonlinear reals, quantified ghost arrays)'))
CHECKS['C03'] = dict(cat='proof', ref='DESIGN.md section 3 C03',
    text='Heap-level Hoare proofs of the real _split_exact/_split/_loc_inner/_loc/__call__ (z3, quantified heap invariants) with a ghost Brownian path carried as a data-structure invariant; split identities proved from the bridge formulas extracted from the real source; __call__ postcondition W = Wc(tb)-Wc(ta), U = V(tb)-V(ta)-(tb-ta)Wc(ta) for every well-formed tree, cache state and mode; Chen relation and the reversed-path contract (ReverseBrownian.__init__/__call__, double reversal) as z3 lemmas; the multi-node aggregation loop of __call__ executed on explicit tensors against Chen for W, U and the Levy area A per batch element.',
    note='T1,T2,T5 (round axioms),T6; generic element (W,H,U element-wise); partial correctness (termination in C07); in-range queries at resolved times; Levy-area merge is dimension-bounded',
    tech=TECH.format(engine='z3 over a symbolic heap (arrays + guarded quantifiers), case split at seams, hypothesis slicing with explicit instances, finite-scope refuter'))
CHECKS['C10'] = dict(cat='proof', ref='DESIGN.md section 3 C10',
    text='Per step: the real AdjointReversibleHeun.step reconstructs the forward step inputs and returns exactly J^T times the incoming adjoints, J obtained by differentiating the symbolic result of the real ReversibleHeun.step (all four noise types; B,d,m in {(1,1,1),(2,2,2)}). Bounded stand-in: real _SdeintAdjointMethod.forward/backward vs backprop through the real integrate on 3 output times / 4 steps.',
    note='T1,T3 (autograd = formal differentiation),T6,T7; step proofs are dimension-bounded; the end-to-end check is bounded and not counted as proved',
    tech=TECH.format(engine='exact polynomial normal form with derivative atoms (Taylor-mode autograd model)'))
CHECKS['C11'] = dict(cat='proof', ref='DESIGN.md section 3 C11',
    text='Every vector field of the real AdjointSDE (f, g_prod, f_and_g_prod, g_prod_and_gdg_prod; 2x4 dispatch table) equals the oracle derived mechanically from the property (Stratonovich form, reverse-time adjoint system, Ito back-conversion) for generic smooth f, g; graph discipline (no graph without grad, derivative-correct with grad); unused parameters get zero; forward functions evaluated at -t.',
    note='T1,T3,T6,T7; dimension-bounded (B,d,m) in {(1,1,1),(2,2,2)}; known finding: derivative of the Milstein-adjoint correction under grad mode',
    tech=TECH.format(engine='exact polynomial normal form with derivative atoms (Taylor-mode autograd model)'))
CHECKS['C15'] = dict(cat='proof', ref='DESIGN.md section 3 C15',
    text='The real ReversibleHeun.step executed on abstract tensors (module over scalars, bilinear prod, uninterpreted f, g) from an arbitrary consistent carried state, then again on the negated time-reversed SDE through the real ReverseBrownian: returns exactly the original (y0, -f0, -g0, z0). All batch/state/noise sizes, all four noise types. ReverseBrownian contract incl. construction and reversal of an already reversed motion.',
    note='T1 (rounding / stability), T6, T7',
    tech=TECH.format(engine='exact polynomial normal form over tensor atoms (A domain)'))
HEAP = TECH.format(engine='z3 over a symbolic heap (arrays + guarded quantifiers), case split, hypothesis slicing with explicit instances, finite-scope refuter with validated rounding models')
CHECKS['C04'] = dict(cat='proof', ref='DESIGN.md section 3 C04',
    text='The law is decided by coefficients: linearity and the ten single-split covariance identities proved (z3, all split ratios) from the bridge formulas extracted from the real source; Davie/Foster: antisymmetry, conditional mean and prescribed variance on explicit tensors; seeds: (spawn_key, depth) injective on nodes (relational obligation on the real _set_spawn_key_and_depth), noise drawn from the parent seeds at the full sample shape; constructor: top-level scaling sqrt(t1-t0), sqrt((t1-t0)/12), user W/H stored unchanged; Levy areas of multi-node queries combine by Chen per batch element (aggregation loop on explicit tensors).',
    note='T1,T2,T4 (Gaussianity/independence of seeded streams),T5,T6; induction over histories is meta-level; Levy-area job dimension-bounded (m=2)',
    tech=HEAP)
CHECKS['C05'] = dict(cat='proof', ref='DESIGN.md section 3 C05',
    text='Stability (every tree mutator only refines leaves: refines frame proved for _split_exact/_split/_loc_inner/_loc for all heaps), value determinism (a node value depends only on parent W,H, parent geometry and parent-seeded noise; the cache stores exactly the returned value), cache transparency (_LRUDict.__setitem__ may forget, never alters, bounded; _EmptyDict), wrappers forward to the same object without writing to it (in-place guard); value-level history independence over the reals by the ghost-path chain (every call returns Wc(round tb)-Wc(round ta) for a ghost path that no call changes where it is fixed).',
    note='T1,T2,T6; bit-identity decided as operation-sequence identity; identity of the floating-point decomposition after refinement is served by time-budgeted bounded stand-ins only (stated in evidence)',
    tech=HEAP)
CHECKS['C06'] = dict(cat='proof', ref='DESIGN.md section 3 C06',
    text='Determinism (no nondeterministic construct except randint under entropy=None; constructor derives all seeds from SeedSequence(entropy)), dyadic split points depend only on the node (postcondition of the real _split), BrownianTree/BrownianPath constructors, wrappers never update borrowed tensors in place.',
    note='T1,T2,T6; "different entropies differ" and cross-history equality of decompositions are not decided (stated in evidence)',
    tech=HEAP)
CHECKS['C07'] = dict(cat='proof', ref='DESIGN.md section 3 C07',
    text='no-raise obligations at every dereference/division/index of the real tree code under the well-formedness invariant; call-site preconditions (_split: leaf + strictly inside point; _loc: round(ta) < round(tb)); decreases measure for dyadic _split in grid units; trampolining of the recursive search checked syntactically; _LRUDict bound; _create_dependency_tree exception-free with piece_length > 0; constructor dispatch.',
    note='T1,T5,T6; termination of the non-dyadic search and of the dependency-tree loop argued, not mechanised; in-range queries',
    tech=HEAP)
XDOM = TECH.format(engine='exact polynomial normal form on explicit small tensors (X domain), uninterpreted row-wise user functions with derivative atoms')
CHECKS['C17'] = dict(cat='proof', ref='DESIGN.md section 3 C17',
    text='For every solver accepting general noise the real step() is executed under the special declaration (diagonal/scalar/additive) and under the general-noise embedding of the same SDE with the same Brownian increment: identical y1 (and carried state for reversible Heun), generic in f, g (time-dependent), dt, dW, A.',
    note='T1,T3,T6,T7; dimension-bounded B=2,d=2,m<=3 (stated in evidence)', tech=XDOM)
CHECKS['C18'] = dict(cat='proof', ref='DESIGN.md section 3 C18',
    text='parse_return differencing/shapes; SDELogqp augmentation equals its definition and is stateless; per solver: first d components of the augmented step equal the un-augmented step, L increases by dt times a non-negative combination of the integrand at the stages with weights summing to one, exact case f-h=gc gives |c|^2/2*dt; pinv exact case in z3; stable_division body and a guard obligation at each of its call sites.',
    note='T1,T5 (pinv g = I),T6,T7; dimension-bounded; assumption: entries of a diagonal diffusion exceed 1e-7 in modulus (guard of stable_division)', tech=XDOM + ' + z3')
CHECKS['C20'] = dict(cat='proof', ref='DESIGN.md section 3 C20',
    text='Row non-interference by self-composition of every real solver step (B=2): changing row 1 of y0, dW, U, A leaves row 0 identical and vice versa (additive diffusions may differ per row); permutation equivariance for row-alike user functions; SDELogqp; Brownian noise drawn at the full sample shape with per-node seeds; Levy-area cross terms of multi-node queries formed per batch element.',
    note='T1,T3,T6,T7 (row-wise user functions are the hypothesis); dimension-bounded B=2,d=2,m<=3; adaptive excluded by the property', tech=XDOM)
CHECKS['C08'] = dict(cat='proof', ref='DESIGN.md section 3 C08',
    text='Differential obligation between the faithful autograd model (detach / no_grad / create_graph=False cut dependence) and ideal differentiation: for every real solver step (all noise types, grad-free Milstein, y0 requiring grad or not) the first-order dependence of y1 and of the carried state on y0 and on the parameters is identical; bounded stand-ins run the real integrate (fixed and adaptive with scripted accept/reject).',
    note='T1,T3 (autograd axiomatised),T6,T7; dimension-bounded B=1,d=2,m<=2; integrate-level checks bounded and not counted as proved; FD agreement itself is T3',
    tech=XDOM + ' with Taylor-mode autograd model')
CHECKS['C16'] = dict(cat='proof', ref='DESIGN.md section 3 C16',
    text='Every supported combination of {f, g, f_and_g, g_prod, f_and_g_prod} and renamed methods (contract of RenameMethodsSDE.__init__ over pairs/triples of slots and all permutations of the canonical names), wrapped by the real ForwardSDE / RenameMethodsSDE, gives the identical step result for every solver when the documented fall-back rules can derive what the solver needs, and an explicit RuntimeError otherwise; derived operators (g_prod, g dg v for diagonal/default/additive, both Levy-area Jacobian implementations) equal their definitions obtained by formal differentiation.',
    note='T1,T3,T6,T7; dimension-bounded B=2,d=2,m<=3', tech=XDOM)
CHECKS['C19'] = dict(cat='proof', ref='DESIGN.md section 3 C19',
    text='Exhaustive over the finite product sde_type x noise_type x method (incl. None) x Levy area of the supplied Brownian motion (incl. bm=None) x adaptive x logqp (1600 cells, for each of the two entry points): the real sdeint and the real sdeint_adjoint are executed up to the intercepted call of integrate; ValueError before integration iff the cell is outside the documented table; default methods and default Brownian motion; 30+ malformed-argument classes on both entry points; an explicit adjoint_method is the one used; adjoint side: for every (sde_type, noise, adjoint_method) the adjoint solver integrates iff admissible, else an explicit error at construction / initial state / first step.',
    note='T6; the documented table (DOCUMENTATION.md + settings.py) is the specification; shapes are concrete small sizes (the code only compares sizes)',
    tech='contract-based deductive verification: pyvc execution of the real front-end code, exhaustive enumeration of the finite configuration space against a specification table')
CHECKS['C09'] = dict(cat='other', ref='DESIGN.md section 3 C09',
    text='Bounded symbolic stand-ins plus a trusted theorem: (1) the real sdeint and the real sdeint_adjoint (top-level functions, check_contract, constructors) return identical values on generic f, g, y0, Brownian path; (2) the real backward pass equals the specification (reverse solve per output interval with the time-reversed same Brownian motion, jumps grad_ys[i-1], state reset to ys[i-1]) evaluated with the real AdjointSDE and adjoint solver; gradient routing (exactly the parameters asked for are handed to the adjoint; no autograd path to parameters not asked for - one known finding for reversible_heun); (3) reversible-Heun pair end-to-end against backprop; (4) the value clauses of the AdjointSDE contract (C11) that the specification relies on are discharged here too. Convergence as dt->0 is NOT proved (Li et al. 2020 trusted).',
    note='the top-level checks are bounded instances (3 output times, 2 steps per interval, B=d=m=1), generic in all symbolic inputs, and are not counted as proved; the AdjointSDE value clauses are dimension-bounded proof obligations; T1,T3,T5,T6,T7',
    tech='contract-based deductive verification family: bounded symbolic execution of the real top-level code against a specification built from the contracts of C11/C12 (bounded stand-in), exact polynomial normal form')
REASONS = {}
checks = []
for p in props:
    pid = p['id']
    if pid in CHECKS:
        c = CHECKS[pid]
        checks.append({
            'property_id': pid,
            'quick_cmd': f'./check {pid} --tier quick',
            'thorough_cmd': f'./check {pid} --tier thorough',
            'evidence_file': f'/verif/evidence/{pid}.json',
            'replay_cmd_template': f'./check {pid} --replay {{path}}',
            'engine': 'pyvc',
            'level_claimed': {'category': c['cat'], 'text': c['text'], 'design_ref': c['ref']},
            'level_note': c['note'],
            'technique': c['tech'],
        })
na = [{'property_id': p['id'], 'reason': REASONS.get(p['id'], 'check not built yet (build in progress; see DESIGN.md section 3)')}
      for p in props if p['id'] not in CHECKS]
m = {
    'version': 1,
    'setup_cmd': 'python3-vt -c "import z3, numpy, sys; sys.path.insert(0, \'/verif\'); import pyvc.runner"',
    'hooks': {'guard': 'TORCHSDE_VERIF',
              'enable': 'no source hooks: contracts are sidecar files in /verif; /repo is parsed with ast on every run and never instrumented',
              'baseline_off_cmd': 'cd /repo && /venv/bin/python -m pytest -ra -q -p no:cacheprovider --timeout=900 --continue-on-collection-errors',
              'source_commits': [], 'add_only': True},
    'engines': [{'name': 'pyvc', 'path': '/verif/pyvc', 'serves_properties': sorted(CHECKS),
                 'kind_free_text': 'ast->VC generator over the real /repo source with sidecar contracts; back ends z3 5.1 (python), cvc5 / z3 4.8.12 (second opinion), exact polynomial normal form'}],
    'checks': checks,
    'not_applicable': na,
    'notes': 'fix: commits in /repo and recorded findings are listed in /verif/known_findings.txt; seeded changes under /verif/seeded.',
}
json.dump(m, open(os.path.join(ROOT, 'MANIFEST.json'), 'w'), indent=1)
print('checks:', [c['property_id'] for c in checks], 'not_applicable:', len(na))
