#!/bin/sh
# Every seeded change under /verif/seeded must be reported (exit 1) by the check of the property it breaks. One line per seed.
cd "$(dirname "$0")/.."
rc=0
for d in seeded/*/; do
  L=$(basename $d); P=$(python3 -c "import json;print(json.load(open('$d/meta.json'))['breaks_property'])")
  out=$(PYVC_NO_NATIVE=1 tools/check_seed.sh $(pwd)/seeded/$L $P 2>&1); e=$?
  echo "$L $P exit=$e :: first: $(echo "$out" | grep '^VIOLATION' | head -1 | sed 's/.*obligation=//' | cut -c1-120)"
  [ $e -ne 1 ] && rc=1
done
exit $rc
