#!/usr/bin/env python3
"""Print a markdown status table from /verif/evidence/*.json (used for DESIGN.md 7.0)."""
import json, os, glob
ROOT = os.path.dirname(os.path.dirname(os.path.abspath(__file__)))
rows = []
for f in sorted(glob.glob(os.path.join(ROOT, 'evidence', 'C*.json'))):
    e = json.load(open(f))
    c = e['coverage']
    rows.append((e['property_id'], e['level'], c.get('obligations', c.get('evaluations', 0)), c.get('discharged', 0), c.get('bounded_checks', 0),
                 len(c.get('known_finding_obligations', [])), len(c.get('functions_under_contract', [])), len(c.get('canaries', [])),
                 c.get('solver_seconds', 0), e.get('wall_s', 0)))
print('| property | level | obligations | discharged | bounded stand-ins | known-finding obligations | functions under contract | canaries refuted | solver s | wall s |')
print('|---|---|---|---|---|---|---|---|---|---|')
for r in rows:
    print('| ' + ' | '.join(str(x) for x in r) + ' |')
