#!/bin/sh
# usage: check_seed.sh <patch-dir> <property> [extra check args] : run a check against a scratch worktree of /repo HEAD with the
# patch applied (never touches /repo's working tree). Evidence and replay files of this run go to /tmp/chk_out_<label> (PYVC_OUT),
# not to /verif, because they describe a modified tree.
D=$1; P=$2; shift 2
L=$(basename $(dirname $D/x))_$$
WT=/tmp/chk_$L
git -C /repo worktree add -q --detach $WT HEAD || exit 9
trap 'git -C /repo worktree remove --force $WT 2>/dev/null' EXIT INT TERM
git -C $WT apply $D/patch.diff || exit 9
mkdir -p /tmp/chk_out
PYVC_OUT=/tmp/chk_out PYVC_REPO=$WT ./check $P --no-canaries "$@"
