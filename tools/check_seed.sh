#!/bin/sh
# usage: check_seed.sh <patch-dir> <property> [extra check args] : run a check against a scratch worktree of /repo HEAD with the
# patch applied (never touches /repo's working tree). Evidence written by this run is from a modified tree: do not commit it.
D=$1; P=$2; shift 2
WT=/tmp/chk_$(basename $D)_$$
git -C /repo worktree add -q $WT HEAD || exit 9
trap 'git -C /repo worktree remove --force $WT 2>/dev/null' EXIT INT TERM
git -C $WT apply $D/patch.diff || exit 9
cp /verif/evidence/$P.json /tmp/evidence_backup_$P_$$.json 2>/dev/null
PYVC_REPO=$WT ./check $P --no-canaries "$@"
rc=$?
cp /tmp/evidence_backup_$P_$$.json /verif/evidence/$P.json 2>/dev/null
exit $rc
