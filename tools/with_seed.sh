#!/bin/sh
# usage: with_seed.sh <seed-label> <command...> : apply /verif/seeded/<label>/patch.diff to /repo, run, always revert
L=$1; shift
trap 'git -C /repo checkout -- . 2>/dev/null' EXIT INT TERM
git -C /repo apply /verif/seeded/$L/patch.diff || exit 9
"$@"
