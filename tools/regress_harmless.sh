#!/bin/sh
# Every behaviour-preserving edit under /verif/harmless must pass every check listed for it (exit 0). Prints one line per run.
cd "$(dirname "$0")/.."
rc=0
while read L CHECKS; do
  for P in $CHECKS; do
    out=$(PYVC_NO_NATIVE=1 tools/check_seed.sh $(pwd)/harmless/$L $P 2>&1); e=$?
    echo "$L $P exit=$e"
    [ $e -ne 0 ] && { rc=1; echo "$out" | grep "^VIOLATION\|^UNDECIDED\|^CHECKER" | head -3 | cut -c1-240; }
  done
done < harmless/CHECKS
exit $rc
