#!/bin/sh
# usage: confirm_seed.sh <dir-with-patch.diff-and-demo.py> <label>
# Confirms a seeded change in a scratch worktree of /repo HEAD: demo fails with it, test suite passes with it,
# demo passes without it. Prints a one-line verdict; removes the worktree.
SRC=$1; L=$2; WT=/tmp/confirm_$L
git -C /repo worktree remove --force $WT 2>/dev/null
git -C /repo worktree add -q $WT HEAD || exit 2
cd $WT
if ! git apply $SRC/patch.diff; then echo "$L: PATCH-DOES-NOT-APPLY"; git -C /repo worktree remove --force $WT; exit 2; fi
PYTHONPATH=$WT timeout 600 /venv/bin/python $SRC/demo.py > /tmp/confirm_$L.demo_with.txt 2>&1; A=$?
PYTHONPATH=$WT OMP_NUM_THREADS=1 /venv/bin/python -m pytest -q -p no:cacheprovider --timeout=900 -n 8 > /tmp/confirm_$L.tests.txt 2>&1; T=$?
git apply -R $SRC/patch.diff
PYTHONPATH=$WT timeout 600 /venv/bin/python $SRC/demo.py > /tmp/confirm_$L.demo_without.txt 2>&1; B=$?
cd /; git -C /repo worktree remove --force $WT
echo "$L: demo_with_exit=$A tests_exit=$T ($(tail -1 /tmp/confirm_$L.tests.txt)) demo_without_exit=$B"
