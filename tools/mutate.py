#!/usr/bin/env python3
"""Mutation audit of a check:  tools/mutate.py <property> <module.path[:function[,function...]]> [...] [--max N] [--jobs J] [--recipe r]

For every AST-level mutant of the named functions of /repo (comparison / arithmetic operator swaps, constant perturbations, negated
conditions, and<->or, deleted assignments, swapped similarly named variables) a scratch copy of the package is written under /tmp, the
check is run against it (PYVC_REPO, evidence redirected with PYVC_OUT, native replay off), and the verdict is tabulated:
killed (exit 1), undecided (2), checker error (3), survived (0).  With --recipe the native replay recipe is run on every survivor: a
survivor on which the recipe reproduces a failure is a definite gap of the check.  Nothing is written to /repo or to /verif/evidence.
Output: one line per mutant and a summary; survivors are listed with their diff line."""
import argparse
import ast
import copy
import json
import os
import shutil
import subprocess
import sys
from concurrent.futures import ThreadPoolExecutor

ROOT = os.path.dirname(os.path.dirname(os.path.abspath(__file__)))
REPO = '/repo'

CMP = {ast.Lt: ast.LtE, ast.LtE: ast.Lt, ast.Gt: ast.GtE, ast.GtE: ast.Gt, ast.Eq: ast.NotEq, ast.NotEq: ast.Eq, ast.Is: ast.IsNot, ast.IsNot: ast.Is}
BIN = {ast.Add: ast.Sub, ast.Sub: ast.Add, ast.Mult: ast.Div, ast.Div: ast.Mult}
SWAPS = [('t0', 't1'), ('ta', 'tb'), ('f', 'g'), ('dt', 'sqrt_dt'), ('y0', 'y1'), ('start', 'end'), ('left', 'right'), ('curr_t', 'next_t'),
         ('W', 'H'), ('rtol', 'atol'), ('_start', '_end'), ('_left_child', '_right_child'), ('f0', 'f1'), ('g0', 'g1'), ('z0', 'z1')]


def mutants_of(func):
    """Yield (description, mutated copy of func)."""
    nodes = [n for n in ast.walk(func)]
    for idx, n in enumerate(nodes):
        def clone():
            c = copy.deepcopy(func)
            return c, [m for m in ast.walk(c)][idx]
        if isinstance(n, ast.Compare) and len(n.ops) == 1 and type(n.ops[0]) in CMP:
            c, m = clone()
            m.ops = [CMP[type(n.ops[0])]()]
            yield f'L{n.lineno} cmp {type(n.ops[0]).__name__}->{CMP[type(n.ops[0])].__name__}', c
        if isinstance(n, ast.BinOp) and type(n.op) in BIN:
            c, m = clone()
            m.op = BIN[type(n.op)]()
            yield f'L{n.lineno} binop {type(n.op).__name__}->{BIN[type(n.op)].__name__}', c
        if isinstance(n, ast.Constant) and isinstance(n.value, (int, float)) and not isinstance(n.value, bool):
            for nv in ({n.value + 1, n.value * 2, 0} - {n.value}):
                c, m = clone()
                m.value = nv
                yield f'L{n.lineno} const {n.value!r}->{nv!r}', c
        if isinstance(n, (ast.If, ast.While, ast.IfExp)):
            c, m = clone()
            m.test = ast.UnaryOp(op=ast.Not(), operand=m.test)
            yield f'L{n.lineno} negate condition', c
        if isinstance(n, ast.BoolOp):
            c, m = clone()
            m.op = ast.Or() if isinstance(n.op, ast.And) else ast.And()
            yield f'L{n.lineno} and<->or', c
        if isinstance(n, (ast.Assign, ast.AugAssign, ast.Expr)) and not (isinstance(n, ast.Expr) and isinstance(n.value, ast.Constant)):
            c, m = clone()
            for parent in ast.walk(c):
                for field in ('body', 'orelse', 'finalbody'):
                    lst = getattr(parent, field, None)
                    if isinstance(lst, list) and m in lst and len(lst) > 1:
                        lst[lst.index(m)] = ast.Pass()
                        yield f'L{n.lineno} delete statement', c
                        break
        if isinstance(n, ast.UnaryOp) and isinstance(n.op, ast.USub):
            c, m = clone()
            m.op = ast.UAdd()
            yield f'L{n.lineno} drop unary minus', c
        if isinstance(n, (ast.Name, ast.Attribute)):
            nm = n.id if isinstance(n, ast.Name) else n.attr
            for a, b in SWAPS:
                for x, y in ((a, b), (b, a)):
                    if nm == x and isinstance(getattr(n, 'ctx', None), ast.Load):
                        c, m = clone()
                        if isinstance(m, ast.Name):
                            m.id = y
                        else:
                            m.attr = y
                        yield f'L{n.lineno} name {x}->{y}', c


def find_functions(tree, names):
    out = []
    for n in ast.walk(tree):
        if isinstance(n, (ast.FunctionDef,)):
            if not names or n.name in names:
                out.append(n)
    return out


def main():
    ap = argparse.ArgumentParser()
    ap.add_argument('property')
    ap.add_argument('targets', nargs='+')
    ap.add_argument('--max', type=int, default=0)
    ap.add_argument('--jobs', type=int, default=4)
    ap.add_argument('--recipe', default=None)
    ap.add_argument('--only', default=None, help='passed to ./check --only')
    ap.add_argument('--out', default=None)
    a = ap.parse_args()
    work = f'/tmp/mutate_{a.property}_{os.getpid()}'
    os.makedirs(work, exist_ok=True)
    todo = []
    for tgt in a.targets:
        modpath, _, fns = tgt.partition(':')
        rel = modpath.replace('.', '/') + '.py'
        if not os.path.exists(os.path.join(REPO, rel)):
            rel = modpath.replace('.', '/') + '/__init__.py'
        src = open(os.path.join(REPO, rel)).read()
        tree = ast.parse(src)
        for fn in find_functions(tree, set(fns.split(',')) if fns else None):
            seg_start, seg_end = fn.lineno, fn.end_lineno
            lines = src.splitlines(keepends=True)
            indent = len(lines[seg_start - 1]) - len(lines[seg_start - 1].lstrip())
            seen = set()
            for desc, mf in mutants_of(fn):
                try:
                    new_fn = ast.unparse(mf)
                except Exception:
                    continue
                if new_fn in seen or new_fn == ast.unparse(fn):
                    continue
                seen.add(new_fn)
                body = ''.join(' ' * indent + l + '\n' for l in new_fn.splitlines())
                deco_start = min([d.lineno for d in fn.decorator_list] + [seg_start])
                new_src = ''.join(lines[:deco_start - 1]) + body + ''.join(lines[seg_end:])
                try:
                    compile(new_src, rel, 'exec')
                except SyntaxError:
                    continue
                todo.append((rel, fn.name, desc, new_src))
    if a.max and len(todo) > a.max:
        step = len(todo) / a.max
        todo = [todo[int(i * step)] for i in range(a.max)]
    print(f'{len(todo)} mutants', flush=True)

    def run(i_m):
        i, (rel, fname, desc, new_src) = i_m
        d = os.path.join(work, f'm{i}')
        shutil.copytree(os.path.join(REPO, 'torchsde'), os.path.join(d, 'torchsde'), ignore=shutil.ignore_patterns('__pycache__'))
        open(os.path.join(d, rel), 'w').write(new_src)
        env = dict(os.environ, PYVC_REPO=d, PYVC_OUT=os.path.join(d, 'out'), PYVC_NO_NATIVE='1')
        cmd = [os.path.join(ROOT, 'check'), a.property, '--no-canaries'] + (['--only', a.only] if a.only else [])
        try:
            p = subprocess.run(cmd, capture_output=True, text=True, env=env, timeout=1800)
            rc = p.returncode
            first = next((l for l in p.stdout.splitlines() if l.startswith(('VIOLATION', 'UNDECIDED', 'CHECKER-ERROR'))), '')
        except subprocess.TimeoutExpired:
            rc, first = 99, 'timeout'
        native = None
        if rc == 0 and a.recipe:
            try:
                q = subprocess.run(['/venv/bin/python', os.path.join(ROOT, 'replay', 'native.py'), a.recipe, '{}'], capture_output=True, text=True,
                                   env=dict(os.environ, PYTHONPATH=d, PYVC_REPO=d, OMP_NUM_THREADS='2'), timeout=600)
                line = [l for l in q.stdout.splitlines() if l.startswith('{')]
                native = json.loads(line[-1]) if line else {'reproduced': None, 'error': (q.stderr or '')[-200:]}
            except subprocess.TimeoutExpired:
                native = {'reproduced': None, 'error': 'timeout'}
        shutil.rmtree(d, ignore_errors=True)
        verdict = {0: 'SURVIVED', 1: 'killed', 2: 'undecided', 3: 'checker-error', 99: 'timeout'}.get(rc, f'rc={rc}')
        rec = {'i': i, 'file': rel, 'function': fname, 'mutation': desc, 'verdict': verdict, 'first': first[:200], 'native': native}
        gap = ' **native-failure: definite gap**' if native and native.get('reproduced') else ''
        print(f'{i:4d} {verdict:14s} {rel.split("/")[-1]}:{fname} {desc}{gap} {first[:120]}', flush=True)
        return rec
    with ThreadPoolExecutor(a.jobs) as ex:
        recs = list(ex.map(run, enumerate(todo)))
    shutil.rmtree(work, ignore_errors=True)
    from collections import Counter
    print('summary', dict(Counter(r['verdict'] for r in recs)))
    if a.out:
        json.dump(recs, open(a.out, 'w'), indent=1)


if __name__ == '__main__':
    main()
