#!/bin/sh
# Run every registered quick check on the clean tree, validate MANIFEST and evidence against the schemas.
cd "$(dirname "$0")/.."
if [ -n "$(git -C /repo status --short)" ]; then echo "/repo working tree is not clean"; exit 9; fi
rc=0
for p in $(python3 -c "import json;print(' '.join(c['property_id'] for c in json.load(open('MANIFEST.json'))['checks']))"); do
  ./check $p --tier ${1:-quick} > /tmp/run_all_$p.log 2>&1; e=$?
  tail -1 /tmp/run_all_$p.log | grep -v KNOWN | cut -c1-200
  grep -h "^C[0-9]* \[" /tmp/run_all_$p.log | cut -c1-200
  [ $e -ne 0 ] && { echo "  EXIT $e for $p"; rc=1; }
done
python3-vt - <<'PY' || rc=1
import json, jsonschema
m = json.load(open('MANIFEST.json'))
jsonschema.validate(m, json.load(open('/root/.vp/MANIFEST.schema.json')))
es = json.load(open('/root/.vp/EVIDENCE.schema.json'))
for c in m['checks']:
    ev = json.load(open(c['evidence_file']))
    jsonschema.validate(ev, es)
    cov = ev['coverage']
    assert cov['obligations'] == cov['discharged'], (c['property_id'], cov['obligations'], cov['discharged'])
    assert ev['violations'] == 0, c['property_id']
print('manifest + evidence valid for', len(m['checks']), 'checks')
PY
exit $rc
