"""Exact sparse multivariate (Laurent) polynomials over Q with graded truncation.

This is the J-domain arithmetic kernel: elements of tensors are polynomials in
  * bookkeeping variables (eps: dt = h eps^2, dW = w eps, U = u eps^3, sqrt(dt) = s eps),
  * formal perturbation variables eta_k of autograd leaves (Taylor-mode model of autograd),
  * jet symbols of the user's drift/diffusion (partial derivatives at the base point),
with exact rational coefficients.  Normal form = dict {monomial: coeff}; two polynomials
are equal iff their normal forms coincide, which makes the zero test a complete decision
procedure for the polynomial identities generated in this domain.
"""
from fractions import Fraction

# ---- global truncation / rewriting configuration (per process, set by the job) ----------
WEIGHTS = {}     # var -> (group, weight)
LIMITS = {}      # group -> max total weight (monomials above are dropped)
RELATIONS = {}   # var -> (power, replacement monomial dict) e.g. 's' -> (2, {'h':1})


def configure(weights=None, limits=None, relations=None):
    WEIGHTS.clear()
    LIMITS.clear()
    RELATIONS.clear()
    WEIGHTS.update(weights or {})
    LIMITS.update(limits or {})
    RELATIONS.update(relations or {})


def _mono_mul(a, b):
    if not a:
        return b
    if not b:
        return a
    d = dict(a)
    for v, e in b:
        n = d.get(v, 0) + e
        if n:
            d[v] = n
        else:
            d.pop(v, None)
    if RELATIONS:
        for v, (p, repl) in RELATIONS.items():
            e = d.get(v, 0)
            if e >= p or e < 0:
                q, r = divmod(e, p)
                if r:
                    d[v] = r
                else:
                    d.pop(v, None)
                for rv, re_ in repl.items():
                    n = d.get(rv, 0) + re_ * q
                    if n:
                        d[rv] = n
                    else:
                        d.pop(rv, None)
    return tuple(sorted(d.items()))


def _dropped(m):
    if not LIMITS:
        return False
    tot = {}
    for v, e in m:
        gw = WEIGHTS.get(v)
        if gw is not None:
            tot[gw[0]] = tot.get(gw[0], 0) + gw[1] * e
    for g, t in tot.items():
        lim = LIMITS.get(g)
        if lim is not None and t > lim:
            return True
    return False


class Poly:
    __slots__ = ('t',)

    def __init__(self, terms=None):
        self.t = terms if terms is not None else {}

    # -------------------------------------------------------------- constructors
    @staticmethod
    def const(c):
        c = Fraction(c)
        return Poly({(): c} if c else {})

    @staticmethod
    def var(name, exp=1):
        m = ((name, exp),)
        if _dropped(m):
            return Poly()
        return Poly({m: Fraction(1)})

    @staticmethod
    def lift(x):
        if isinstance(x, Poly):
            return x
        if isinstance(x, (int, Fraction)) and not isinstance(x, bool):
            return Poly.const(x)
        return None

    # -------------------------------------------------------------- arithmetic
    def __add__(self, o):
        o = Poly.lift(o)
        if o is None:
            return NotImplemented
        if not o.t:
            return self
        if not self.t:
            return o
        d = dict(self.t)
        for m, c in o.t.items():
            n = d.get(m, 0) + c
            if n:
                d[m] = n
            else:
                d.pop(m, None)
        return Poly(d)

    __radd__ = __add__

    def __neg__(self):
        return Poly({m: -c for m, c in self.t.items()})

    def __pos__(self):
        return self

    def __sub__(self, o):
        o = Poly.lift(o)
        if o is None:
            return NotImplemented
        return self + (-o)

    def __rsub__(self, o):
        o = Poly.lift(o)
        if o is None:
            return NotImplemented
        return o + (-self)

    def __mul__(self, o):
        o = Poly.lift(o)
        if o is None:
            return NotImplemented
        if not self.t or not o.t:
            return Poly()
        a, b = (self.t, o.t) if len(self.t) <= len(o.t) else (o.t, self.t)
        d = {}
        for m1, c1 in a.items():
            for m2, c2 in b.items():
                m = _mono_mul(m1, m2)
                if _dropped(m):
                    continue
                n = d.get(m, 0) + c1 * c2
                if n:
                    d[m] = n
                else:
                    d.pop(m, None)
        return Poly(d)

    __rmul__ = __mul__

    def __pow__(self, n):
        if isinstance(n, Fraction) and n.denominator == 1:
            n = n.numerator
        if not isinstance(n, int) or isinstance(n, bool):
            return NotImplemented
        if n < 0:
            return Poly.const(1) / (self ** (-n))
        r = Poly.const(1)
        b = self
        while n:
            if n & 1:
                r = r * b
            n >>= 1
            if n:
                b = b * b
        return r

    def is_monomial(self):
        return len(self.t) == 1

    def inverse(self):
        if not self.t:
            raise ZeroDivisionError('division by the zero polynomial')
        if len(self.t) != 1:
            raise NonMonomialDivision(repr(self))
        (m, c), = self.t.items()
        return Poly({tuple((v, -e) for v, e in m): 1 / c})

    def __truediv__(self, o):
        if isinstance(o, (int, Fraction)) and not isinstance(o, bool):
            if o == 0:
                raise ZeroDivisionError
            return self * (Fraction(1) / o)
        if isinstance(o, Poly):
            return self * o.inverse()
        return NotImplemented

    def __rtruediv__(self, o):
        o = Poly.lift(o)
        if o is None:
            return NotImplemented
        return o * self.inverse()

    # -------------------------------------------------------------- queries
    def is_zero(self):
        return not self.t

    def __eq__(self, o):
        o = Poly.lift(o)
        if o is None:
            return NotImplemented
        return self.t == o.t

    def __ne__(self, o):
        r = self.__eq__(o)
        return r if r is NotImplemented else not r

    __hash__ = None

    def __bool__(self):
        raise TypeError('Poly used as a Python bool')

    def key(self):
        """Canonical hashable form (normal form is unique)."""
        return tuple(sorted(self.t.items()))

    def vars(self):
        s = set()
        for m in self.t:
            for v, _ in m:
                s.add(v)
        return s

    def degree_in(self, var):
        return max((dict(m).get(var, 0) for m in self.t), default=0)

    def coeff(self, var, k):
        """Coefficient polynomial of var**k."""
        d = {}
        for m, c in self.t.items():
            dm = dict(m)
            if dm.get(var, 0) == k:
                dm.pop(var, None)
                d[tuple(sorted(dm.items()))] = c
        return Poly(d)

    def orders(self, var):
        return sorted({dict(m).get(var, 0) for m in self.t})

    def subs(self, mapping):
        """Substitute variables by polynomials/numbers (exact)."""
        out = Poly()
        cache = {}
        for m, c in self.t.items():
            term = Poly.const(c)
            for v, e in m:
                if v in mapping:
                    key = (v, e)
                    if key not in cache:
                        cache[key] = Poly.lift(mapping[v]) ** e
                    term = term * cache[key]
                else:
                    term = term * Poly({((v, e),): Fraction(1)})
            out = out + term
        return out

    def drop_vars(self, pred):
        """Set to zero every variable v with pred(v) (i.e. keep only monomials free of them)."""
        return Poly({m: c for m, c in self.t.items() if not any(pred(v) for v, _ in m)})

    def diff(self, var):
        d = {}
        for m, c in self.t.items():
            dm = dict(m)
            e = dm.get(var, 0)
            if e == 0:
                continue
            if e == 1:
                dm.pop(var)
            else:
                dm[var] = e - 1
            k = tuple(sorted(dm.items()))
            n = d.get(k, 0) + c * e
            if n:
                d[k] = n
            else:
                d.pop(k, None)
        return Poly(d)

    def derive(self, rule):
        """Apply a derivation D (Leibniz) given on variables by rule(var) -> Poly or None (=0)."""
        out = Poly()
        for v in self.vars():
            dv = rule(v)
            if dv is None:
                continue
            out = out + self.diff(v) * dv
        return out

    def evaluate(self, env):
        tot = Fraction(0)
        for m, c in self.t.items():
            x = c
            for v, e in m:
                x = x * Fraction(env[v]) ** e
            tot += x
        return tot

    def __repr__(self):
        if not self.t:
            return '0'
        parts = []
        for m, c in sorted(self.t.items(), key=lambda kv: kv[0]):
            mono = '*'.join(v if e == 1 else f'{v}^{e}' for v, e in m)
            parts.append(f'{c}' + (f'*{mono}' if mono else ''))
        s = ' + '.join(parts)
        return s if len(s) < 400 else s[:400] + f'... ({len(self.t)} terms)'


class NonMonomialDivision(ArithmeticError):
    pass


# ------------------------------------------------------------------ Gaussian expectation
def gaussian_expectation(p, cov):
    """E[p] where the variables listed in `cov` (dict (v1,v2)->Poly covariance, symmetric) are
    jointly centred Gaussian and every other variable is deterministic (Isserlis/Wick)."""
    gvars = set()
    for a, b in cov:
        gvars.add(a)
        gvars.add(b)

    def c(a, b):
        r = cov.get((a, b))
        if r is None:
            r = cov.get((b, a))
        return Poly() if r is None else r

    memo = {}

    def moment(lst):
        # lst: sorted tuple of variable names (with repetition)
        if not lst:
            return Poly.const(1)
        if len(lst) % 2:
            return Poly()
        if lst in memo:
            return memo[lst]
        first, rest = lst[0], lst[1:]
        tot = Poly()
        for i, other in enumerate(rest):
            cv = c(first, other)
            if cv.is_zero():
                continue
            tot = tot + cv * moment(rest[:i] + rest[i + 1:])
        memo[lst] = tot
        return tot

    out = Poly()
    for m, coef in p.t.items():
        lst = []
        det = []
        for v, e in m:
            if v in gvars:
                if e < 0:
                    raise ValueError('negative power of a Gaussian variable')
                lst.extend([v] * e)
            else:
                det.append((v, e))
        out = out + Poly({tuple(det): coef}) * moment(tuple(sorted(lst)))
    return out
