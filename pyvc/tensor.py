"""X domain: explicit small tensors with symbolic elements + element-level models of the torch
operators torchsde uses (trusted, T6; exercised by pyvc.crosscheck against real torch).

Elements are Fractions, pyvc.poly.Poly (J domain) or pyvc.values.SV (z3 reals).  Autograd is
modelled in Taylor mode: a tensor that `requires_grad` as a leaf carries one formal
perturbation variable eta_k per element; torch.autograd.grad is the formal partial
derivative with respect to those variables (T3).
"""
import itertools
from fractions import Fraction

import numpy as np
import z3

from .values import SV, SB, Unsupported, is_num, to_z3
from .poly import Poly
from . import poly as polymod
from . import interp as I

STATE = {'grad': True, 'eta_count': 0, 'sqrt_table': [], 'engine': None, 'cx': None, 'autograd_calls': [], 'transparent': False}


def reset_state():
    STATE.update({'grad': True, 'eta_count': 0, 'sqrt_table': [], 'autograd_calls': [], 'transparent': False})


class TorchSize(tuple):
    def numel(self):
        n = 1
        for x in self:
            n *= x
        return n

    def __pyvc_getattr__(self, engine, name, cx, lineno):
        if name == 'numel':
            return I.ExternFunc('Size.numel', self.numel)
        raise I.PyExc('AttributeError', f'torch.Size has no {name}', lineno)


class Token:
    def __init__(self, name):
        self.name = name

    def __repr__(self):
        return self.name


FLOAT64 = Token('torch.float64')
FLOAT32 = Token('torch.float32')
CPU = Token('cpu')


def _is_eta(v):
    return v.startswith('eta')


def el_detach(x):
    if isinstance(x, Poly):
        return x.drop_vars(_is_eta)
    return x


def el_has_eta(x):
    return isinstance(x, Poly) and any(_is_eta(v) for v in x.vars())


def el_sqrt(x):
    if is_num(x):
        from .builtins_model import _algebraic_sqrt
        return _algebraic_sqrt(STATE['engine'], x)
    if isinstance(x, Poly):
        for p, r in STATE['sqrt_table']:
            if p == x:
                return r
        if x.is_zero():
            return x
        raise Unsupported(f'sqrt of polynomial {x!r} (not in the registered table)')
    if isinstance(x, SV):
        # tensor sqrt: NaN (no exception) for negative input; the root is only characterised for x >= 0
        cx = STATE['engine'].current_cx
        r = cx.fresh('tsqrt')
        cx.assume(z3.Implies(x.e >= 0, z3.And(r >= 0, r * r == x.e)))
        return SV(r)
    raise Unsupported(f'sqrt of {x!r}')


def el_abs(x):
    if is_num(x):
        return abs(x)
    if isinstance(x, SV):
        return SV(z3.If(x.e >= 0, x.e, -x.e))
    raise Unsupported(f'abs of {x!r}')


def el_min(a, b):
    if is_num(a) and is_num(b):
        return min(a, b)
    if isinstance(a, SV) or isinstance(b, SV):
        ea, eb = to_z3(a), to_z3(b)
        return SV(z3.If(ea <= eb, ea, eb))
    raise Unsupported(f'min of {a!r},{b!r}')


def el_max(a, b):
    if is_num(a) and is_num(b):
        return max(a, b)
    if isinstance(a, SV) or isinstance(b, SV):
        ea, eb = to_z3(a), to_z3(b)
        return SV(z3.If(ea >= eb, ea, eb))
    raise Unsupported(f'max of {a!r},{b!r}')


def _obj(a):
    arr = np.empty((), dtype=object)
    arr[()] = a
    return arr


def as_array(x):
    if isinstance(x, XT):
        return x.a
    if isinstance(x, np.ndarray):
        return x
    return x  # scalar python object: numpy broadcasts it


class XT:
    """Small explicit tensor. `a` is a numpy object array of elements."""
    __array_priority__ = 1000

    def __init__(self, a, rg=False, leaf=True, dtype=FLOAT64):
        if not isinstance(a, np.ndarray):
            a = np.array(a, dtype=object)
        if a.dtype != object:
            a = a.astype(object)
        self.a = a
        self.rg = rg
        self.leaf = leaf
        self.dtype = dtype
        self.root = self            # storage owner: views / detach() share the storage of their source (see _alias)
        self.borrowed = False       # storage owned by the caller or by user code (set by mark_borrowed on harness inputs)
        self.aliased = False        # some other tensor object shares this storage

    # ------------------------------------------------------------ helpers
    @property
    def shape(self):
        return TorchSize(self.a.shape)

    def _new(self, a, *parents):
        if not isinstance(a, np.ndarray):
            a = _obj(a)
        if STATE['transparent']:
            # ideal differentiation (C08 oracle): every value keeps its full dependence on the leaves
            return XT(a, rg=any(isinstance(p, XT) and p.rg for p in (self,) + parents), leaf=False, dtype=self.dtype)
        rg = STATE['grad'] and any(isinstance(p, XT) and p.rg for p in (self,) + parents)
        if not STATE['grad']:
            a = _map(el_detach, a)
        return XT(a, rg=rg, leaf=not rg, dtype=self.dtype)

    def _alias(self, t):
        """`t` is a view of (shares storage with) self: ownership follows the storage."""
        t.root = self.root
        self.root.aliased = True
        return t

    def _inplace(self, name, args, kwargs, engine, cx, lineno):
        """Tensor.<op>_(...): in-place update.  Ownership (frame) condition: the storage written must be owned by the running
        computation -- writing into a tensor received from the caller or from user code (or a view / detach() of one) is observable
        by its owner (a user function may return its argument itself).  Internal aliasing is not modelled: unsupported."""
        base = getattr(self, 'm_' + name[:-1], None)
        ops = {'add': lambda x, o, alpha=1: x + (o * alpha if alpha != 1 else o), 'sub': lambda x, o, alpha=1: x - (o * alpha if alpha != 1 else o),
               'mul': lambda x, o: x * o, 'div': lambda x, o: x / o, 'neg': lambda x: -x, 'zero': lambda x: x * 0,
               'copy': lambda x, o: o + x * 0}
        if name[:-1] in ops:
            val = ops[name[:-1]](self, *args, **kwargs)
        elif base is not None:
            val = base(*args, **kwargs)
        else:
            raise Unsupported(f'no model for Tensor.{name} (line {lineno})')
        root = self.root
        if root.borrowed:
            # recorded on the engine (not on the path context): the harness may be a bounded execution that collects no path obligations
            engine.frame_violations.append({'name': f'frame.no-in-place-update-of-a-tensor-owned-by-the-caller(Tensor.{name})@L{lineno}',
                                            'lineno': lineno, 'what': f'Tensor.{name} writes into the storage of an argument of the enclosing solver step '
                                                                      '(or a view / detach() of one); a user function may return its argument, so the write is observable'})
            return val
        if root.aliased:
            raise Unsupported(f'in-place Tensor.{name} on an internally aliased tensor: aliasing is not modelled (line {lineno})')
        self.a, self.rg, self.leaf = val.a, val.rg, val.leaf
        return self

    def _bin(self, o, f, swap=False):
        if isinstance(o, (list, tuple, dict, str)) or o is None:
            return NotImplemented
        b = as_array(o)
        try:
            r = f(b, self.a) if swap else f(self.a, b)
        except polymod.NonMonomialDivision as e:
            raise Unsupported(f'division by non-monomial polynomial {e}')
        if not isinstance(r, np.ndarray):
            r = _obj(r)
        return self._new(r, o if isinstance(o, XT) else None)

    def __add__(self, o): return self._bin(o, lambda a, b: a + b)
    def __radd__(self, o): return self._bin(o, lambda a, b: a + b, True)
    def __sub__(self, o): return self._bin(o, lambda a, b: a - b)
    def __rsub__(self, o): return self._bin(o, lambda a, b: a - b, True)
    def __mul__(self, o): return self._bin(o, lambda a, b: a * b)
    def __rmul__(self, o): return self._bin(o, lambda a, b: a * b, True)
    def __truediv__(self, o): return self._bin(o, lambda a, b: a / b)
    def __rtruediv__(self, o): return self._bin(o, lambda a, b: a / b, True)
    def __neg__(self): return self._new(-self.a)
    def __pos__(self): return self

    def __pow__(self, n):
        if isinstance(n, Fraction) and n.denominator == 1:
            n = n.numerator
        if not isinstance(n, int):
            return NotImplemented
        return self._new(_map(lambda x: x ** n, self.a))

    def _cmp(self, o, f):
        b = as_array(o)
        aa, bb = np.broadcast_arrays(self.a, b)
        r = np.empty(aa.shape, dtype=object)
        for idx in np.ndindex(*aa.shape):
            r[idx] = f(aa[idx], bb[idx])       # element-wise; symbolic comparisons stay symbolic (no truth-value conversion)
        return XT(r, dtype=Token('torch.bool'))

    def __lt__(self, o): return self._scalar_cmp(o, lambda a, b: a < b)
    def __le__(self, o): return self._scalar_cmp(o, lambda a, b: a <= b)
    def __gt__(self, o): return self._scalar_cmp(o, lambda a, b: a > b)
    def __ge__(self, o): return self._scalar_cmp(o, lambda a, b: a >= b)

    def _scalar_cmp(self, o, f):
        if self.a.size == 1 and (not isinstance(o, XT) or o.a.size == 1):
            x = self.a.reshape(-1)[0]
            y = o.a.reshape(-1)[0] if isinstance(o, XT) else o
            return f(x, y)
        return self._cmp(o, f)

    __hash__ = None

    def __eq__(self, o):
        if o is None or isinstance(o, (str, tuple, list)):
            return False
        return self._scalar_cmp(o, lambda a, b: a == b)

    def __ne__(self, o):
        if o is None or isinstance(o, (str, tuple, list)):
            return True
        return self._scalar_cmp(o, lambda a, b: a != b)

    def __repr__(self):
        return f'XT{tuple(self.a.shape)}{"*" if self.rg else ""}'

    def item(self):
        if self.a.size != 1:
            raise I.PyExc('RuntimeError', 'item() of a tensor with more than one element')
        return self.a.reshape(-1)[0]

    # ------------------------------------------------------------ interpreter protocol
    def __pyvc_len__(self):
        if self.a.ndim == 0:
            raise I.PyExc('TypeError', 'len() of a 0-d tensor')
        return self.a.shape[0]

    def __pyvc_iter__(self, cx):
        if self.a.ndim == 0:
            raise I.PyExc('TypeError', 'iteration over a 0-d tensor')
        return [self._new(_ensure_arr(self.a[i])) for i in range(self.a.shape[0])]

    def __pyvc_float__(self, engine, cx, lineno):
        return self.item()

    def __pyvc_isinstance__(self, engine, c):
        if isinstance(c, I.ExternBase) and c.name == 'torch.Tensor':
            return True
        return False

    def __pyvc_getitem__(self, engine, key, cx, lineno):
        try:
            r = self.a[key if not isinstance(key, list) else tuple(key)]
        except IndexError:
            raise I.PyExc('IndexError', 'tensor index out of range', lineno)
        return self._alias(self._new(_ensure_arr(r)))

    def __pyvc_setitem__(self, engine, key, v, cx, lineno):
        raise Unsupported('in-place tensor item assignment')

    def __pyvc_getattr__(self, engine, name, cx, lineno):
        if name == 'shape':
            return self.shape
        if name == 'dtype':
            return self.dtype
        if name == 'device':
            return CPU
        if name == 'requires_grad':
            return self.rg
        if name == 'is_leaf':
            return self.leaf
        if name == 'ndim':
            return self.a.ndim
        if name == 'T':
            return self._alias(self._new(self.a.T))
        m = getattr(self, 'm_' + name, None)
        if m is None:
            if name.endswith('_') and not name.startswith('_'):
                return I.ExternFunc('Tensor.' + name, lambda *a, **k: self._inplace(name, a, k, engine, cx, lineno))
            raise Unsupported(f'no model for Tensor.{name} (line {lineno})')
        return I.ExternFunc('Tensor.' + name, m)

    # ------------------------------------------------------------ tensor methods
    def m_size(self, dim=None):
        if dim is None:
            return self.shape
        return self.a.shape[dim]

    def m_dim(self):
        return self.a.ndim

    m_ndimension = m_dim

    def m_numel(self):
        return int(self.a.size)

    def m_item(self):
        return self.item()

    def m_cpu(self):
        return self

    def m_detach(self):
        if STATE['transparent']:
            return self._alias(XT(self.a, rg=False, leaf=True, dtype=self.dtype))     # value (and its dependence on the leaves) unchanged
        return self._alias(XT(_map(el_detach, self.a), rg=False, leaf=True, dtype=self.dtype))

    def m_requires_grad_(self, flag=True):
        if flag and not self.rg:
            make_leaf(self)
        self.rg = bool(flag)
        self.leaf = True
        return self

    def m_squeeze(self, dim=None):
        if dim is None:
            return self._alias(self._new(np.squeeze(self.a)))
        d = dim if dim >= 0 else dim + self.a.ndim
        if d >= self.a.ndim or d < 0:
            raise I.PyExc('IndexError', 'squeeze dim out of range')
        if self.a.shape[d] != 1:
            return self
        return self._alias(self._new(np.squeeze(self.a, axis=d)))

    def m_unsqueeze(self, dim):
        d = dim if dim >= 0 else dim + self.a.ndim + 1
        return self._alias(self._new(np.expand_dims(self.a, d)))

    def m_transpose(self, d0, d1):
        return self._alias(self._new(np.swapaxes(self.a, d0, d1)))

    def m_permute(self, *dims):
        if len(dims) == 1 and isinstance(dims[0], (tuple, list)):
            dims = dims[0]
        return self._alias(self._new(np.transpose(self.a, dims)))

    def m_reshape(self, *shape):
        if len(shape) == 1 and isinstance(shape[0], (tuple, list)):
            shape = tuple(shape[0])
        return self._alias(self._new(self.a.reshape(shape)))

    m_view = m_reshape

    def m_flatten(self, start_dim=0, end_dim=-1):
        nd = self.a.ndim
        s = start_dim if start_dim >= 0 else start_dim + nd
        e = end_dim if end_dim >= 0 else end_dim + nd
        shp = self.a.shape
        new = shp[:s] + (int(np.prod(shp[s:e + 1], dtype=int)),) + shp[e + 1:]
        return self._alias(self._new(self.a.reshape(new)))

    def m_sum(self, dim=None, keepdim=False):
        if dim is None:
            tot = 0
            for x in self.a.reshape(-1):
                tot = tot + x
            return self._new(_obj(tot))
        r = _sum_axis(self.a, dim, keepdim)
        return self._new(r)

    def m_mean(self, dim=None, keepdim=False):
        if dim is None:
            return self.m_sum() / Fraction(int(self.a.size))
        n = self.a.shape[dim]
        return self.m_sum(dim, keepdim) / Fraction(n)

    def m_flip(self, *dims):
        if len(dims) == 1 and isinstance(dims[0], (tuple, list)):
            dims = tuple(dims[0])
        return self._new(np.flip(self.a, axis=dims))

    def m_expand(self, *shape):
        if len(shape) == 1 and isinstance(shape[0], (tuple, list)):
            shape = tuple(shape[0])
        shape = tuple(self.a.shape[i - (len(shape) - self.a.ndim)] if s == -1 else s for i, s in enumerate(shape))
        return self._alias(self._new(np.broadcast_to(self.a, shape).copy()))

    def m_sqrt(self):
        return self._new(_map(el_sqrt, self.a))

    def m_abs(self):
        return self._new(_map(el_abs, self.a))

    def m_sign(self):
        def sg(x):
            if is_num(x):
                return Fraction((x > 0) - (x < 0))
            if isinstance(x, SV):
                return SV(z3.If(x.e > 0, z3.RealVal(1), z3.If(x.e < 0, z3.RealVal(-1), z3.RealVal(0))))
            raise Unsupported('Tensor.sign on polynomial elements (use the contract of misc.stable_division)')
        return self._new(_map(sg, self.a))

    def m_clamp_min(self, m):
        return self._new(_map(lambda x: el_max(x, m), self.a))

    def m_clamp(self, min=None, max=None):
        out = self.a
        if min is not None:
            out = _map(lambda x: el_max(x, min), out)
        if max is not None:
            out = _map(lambda x: el_min(x, max), out)
        return self._new(out)

    def m_diagonal(self, offset=0, dim1=0, dim2=1):
        return self._alias(self._new(np.diagonal(self.a, offset=offset, axis1=dim1, axis2=dim2)))

    def m_split(self, split_size, dim=0):
        n = self.a.shape[dim]
        if isinstance(split_size, int):
            sizes = [split_size] * (n // split_size) + ([n % split_size] if n % split_size else [])
        else:
            sizes = list(split_size)
            if sum(sizes) != n:
                raise I.PyExc('RuntimeError', 'split sizes do not sum to the dimension size')
        out, pos = [], 0
        for s in sizes:
            idx = [slice(None)] * self.a.ndim
            idx[dim] = slice(pos, pos + s)
            out.append(self._alias(self._new(self.a[tuple(idx)])))
            pos += s
        return tuple(out)

    def m_new_zeros(self, size):
        return XT(_full(tuple(size), Fraction(0)), dtype=self.dtype)

    def m_pinverse(self):
        h = STATE.get('pinverse')
        if h is None:
            raise Unsupported('pinverse has no model in this job')
        return h(self)

    def m_any(self):
        def nz(e):
            if is_num(e):
                return e != 0
            if isinstance(e, Poly):
                return not e.is_zero()      # generic point: a non-zero polynomial is non-zero
            raise Unsupported('Tensor.any() on z3-valued elements')
        return any(nz(e) for e in self.a.reshape(-1))

    def m_repeat(self, *sizes):
        if len(sizes) == 1 and isinstance(sizes[0], (tuple, list)):
            sizes = tuple(sizes[0])
        if len(sizes) < self.a.ndim:
            raise I.PyExc('RuntimeError', 'Number of dimensions of repeat dims can not be smaller than number of dimensions of tensor')
        return self._new(np.tile(self.a, tuple(int(s) for s in sizes)))

    def m_t(self):
        if self.a.ndim > 2:
            raise I.PyExc('RuntimeError', 't() expects a tensor with <= 2 dimensions')
        return self._alias(self._new(self.a.T))

    def m_matmul(self, o):
        return t_matmul(self, o)

    def __matmul__(self, o):
        return t_matmul(self, o)

    def m_max(self, dim=None, keepdim=False):
        """Tensor.max(): global maximum (0-d tensor); Tensor.max(dim): (values, indices) - values only are modelled."""
        import functools
        if dim is None:
            flat = list(self.a.reshape(-1))
            if not flat:
                raise I.PyExc('RuntimeError', 'max(): Expected reduction dim to be specified for input.numel() == 0')
            return self._new(_obj(functools.reduce(el_max, flat)))
        moved = np.moveaxis(self.a, dim, 0)
        out = np.empty(moved.shape[1:], dtype=object)
        for idx in np.ndindex(*out.shape):
            out[idx] = functools.reduce(el_max, [moved[(k,) + idx] for k in range(moved.shape[0])])
        vals = self._new(_ensure_arr(np.expand_dims(out, dim) if keepdim else out))
        return (vals, None)

    def m_clone(self):
        return self._new(self.a.copy())

    def m_is_floating_point(self):
        return True

    def m_to(self, *a, **k):
        return self

    def m_round(self):
        raise Unsupported('Tensor.round')


def _ensure_arr(r):
    return r if isinstance(r, np.ndarray) else _obj(r)


def _map(f, a):
    out = np.empty(a.shape, dtype=object)
    flat_in = a.reshape(-1)
    flat_out = out.reshape(-1)
    for i in range(flat_in.shape[0]):
        flat_out[i] = f(flat_in[i])
    return out


def _full(shape, v):
    out = np.empty(shape, dtype=object)
    out.reshape(-1)[:] = [v] * int(np.prod(shape, dtype=int)) if out.size else []
    return out


def _sum_axis(a, dim, keepdim):
    d = dim if dim >= 0 else dim + a.ndim
    moved = np.moveaxis(a, d, 0)
    if moved.shape[0] == 0:
        tot = _full(moved.shape[1:], Fraction(0))
    else:
        tot = moved[0]
        for k in range(1, moved.shape[0]):
            tot = tot + moved[k]
    tot = _ensure_arr(tot)
    if keepdim:
        tot = np.expand_dims(tot, d)
    return tot


# ---------------------------------------------------------------- autograd model (T3)
def make_leaf(x):
    """Give every element of x its own formal perturbation variable."""
    flat = x.a.reshape(-1)
    names = []
    new = np.empty(flat.shape, dtype=object)
    for i in range(flat.shape[0]):
        STATE['eta_count'] += 1
        nm = f'eta{STATE["eta_count"]}'
        polymod.WEIGHTS[nm] = ('eta', 1)
        names.append(nm)
        base = flat[i] if STATE['transparent'] else el_detach(flat[i])
        pb = Poly.lift(base)
        if pb is None:
            raise Unsupported('autograd leaves need polynomial (J-domain) elements')
        new[i] = pb + Poly.var(nm)
    x.a = new.reshape(x.a.shape)
    x.eta = names
    return x


def autograd_grad(engine, cx, lineno, outputs, inputs, grad_outputs=None, retain_graph=None, create_graph=False,
                  allow_unused=False, **kw):
    if isinstance(outputs, XT):
        outputs = [outputs]
    if isinstance(inputs, XT):
        inputs = [inputs]
    outputs = list(outputs)
    inputs = list(inputs)
    if grad_outputs is None:
        grad_outputs = [None] * len(outputs)
    elif isinstance(grad_outputs, XT):
        grad_outputs = [grad_outputs]
    grad_outputs = list(grad_outputs)
    STATE['autograd_calls'].append({'line': lineno, 'create_graph': bool(create_graph), 'allow_unused': bool(allow_unused)})
    if not any(o.rg for o in outputs) and not STATE['transparent']:
        raise I.PyExc('RuntimeError', 'element 0 of tensors does not require grad and does not have a grad_fn', lineno)
    # scalarise: S = sum_k <grad_out_k, out_k>  (grad_outputs are treated as constants by autograd)
    S = Poly()
    for o, g in zip(outputs, grad_outputs):
        of = o.a.reshape(-1)
        if g is None:
            if o.a.size != 1:
                raise I.PyExc('RuntimeError', 'grad can be implicitly created only for scalar outputs', lineno)
            gf = [Fraction(1)]
        else:
            if tuple(g.a.shape) != tuple(o.a.shape):
                raise I.PyExc('RuntimeError', f'grad_outputs shape {g.a.shape} != output shape {o.a.shape}', lineno)
            gf = g.a.reshape(-1)
        for i in range(of.shape[0]):
            S = S + Poly.lift(gf[i]) * _mark(Poly.lift(of[i]))
    results = []
    for inp in inputs:
        names = getattr(inp, 'eta', None)
        if names is None:
            if not inp.rg:
                raise I.PyExc('RuntimeError', 'One of the differentiated Tensors does not require grad', lineno)
            names = _view_eta_names(inp)
        used = any(_mvar(n) in S.vars() for n in names)
        if not used:
            if not allow_unused:
                raise I.PyExc('RuntimeError', 'One of the differentiated Tensors appears to not have been used in '
                                              'the graph. Set allow_unused=True if this is the desired behavior.', lineno)
            results.append(None)
            continue
        vals = np.empty(len(names), dtype=object)
        for i, n in enumerate(names):
            d = _unmark(S.diff(_mvar(n)))
            vals[i] = d if (create_graph or STATE['transparent']) else el_detach(d)
        r = XT(vals.reshape(inp.a.shape), rg=bool(create_graph) or STATE['transparent'], leaf=not create_graph, dtype=inp.dtype)
        results.append(r)
    return tuple(results)


def _view_eta_names(x):
    """A non-leaf tensor that is a pure view (slice/reshape) of leaves: every element is c + eta_k with distinct eta_k.
    Differentiating w.r.t. such a tensor is differentiating w.r.t. those eta_k (T3)."""
    names = []
    for e in x.a.reshape(-1):
        p = Poly.lift(e)
        lin = [m for m, c in p.t.items() if len(m) == 1 and _is_eta(m[0][0]) and m[0][1] == 1 and c == 1]
        others = [m for m in p.t if any(_is_eta(v) for v, _ in m) and m not in lin]
        if len(lin) != 1 or others:
            raise Unsupported('autograd.grad with respect to a non-leaf tensor that is not a pure view of leaves')
        names.append(lin[0][0][0])
    if len(set(names)) != len(names):
        raise Unsupported('autograd.grad with respect to a view with repeated elements')
    return names


# Differentiation must see only the dependence of the *outputs* on eta, not that of grad_outputs.
# Outputs are therefore re-expressed in marked copies of the eta variables before the product.
def _mvar(n):
    return '@' + n


def _mark(p):
    d = {}
    for m, c in p.t.items():
        d[tuple(sorted((('@' + v if _is_eta(v) else v), e) for v, e in m))] = c
    return Poly(d)


def _unmark(p):
    d = {}
    for m, c in p.t.items():
        dd = {}
        for v, e in m:
            v = v[1:] if v.startswith('@') else v
            dd[v] = dd.get(v, 0) + e
        mm = tuple(sorted((v, e) for v, e in dd.items() if e))
        if polymod._dropped(mm):
            continue
        n = d.get(mm, 0) + c
        if n:
            d[mm] = n
        else:
            d.pop(mm, None)
    return Poly(d)


class GradMode:
    def __init__(self, enabled):
        self.enabled = enabled

    def __pyvc_enter__(self, cx):
        self.prev = STATE['grad']
        STATE['grad'] = self.enabled
        return None

    def __pyvc_exit__(self, cx):
        STATE['grad'] = self.prev


# ---------------------------------------------------------------- torch module model
def t_cat(tensors, dim=0):
    tensors = list(tensors)
    arrs = [t.a for t in tensors]
    return tensors[0]._new(np.concatenate(arrs, axis=dim), *tensors[1:])


def t_stack(tensors, dim=0):
    tensors = list(tensors)
    return tensors[0]._new(np.stack([t.a for t in tensors], axis=dim), *tensors[1:])


def t_bmm(a, b):
    if a.a.ndim != 3 or b.a.ndim != 3 or a.a.shape[0] != b.a.shape[0] or a.a.shape[2] != b.a.shape[1]:
        raise I.PyExc('RuntimeError', f'bmm shape mismatch {a.a.shape} x {b.a.shape}')
    B, n, k = a.a.shape
    m = b.a.shape[2]
    out = np.empty((B, n, m), dtype=object)
    for bi in range(B):
        for i in range(n):
            for j in range(m):
                tot = Fraction(0)
                for l in range(k):
                    tot = tot + a.a[bi, i, l] * b.a[bi, l, j]
                out[bi, i, j] = tot
    return a._new(out, b)


def _mm2(x, y):
    n, k = x.shape
    k2, m = y.shape
    if k != k2:
        raise I.PyExc('RuntimeError', f'matmul shape mismatch {x.shape} x {y.shape}')
    out = np.empty((n, m), dtype=object)
    for i in range(n):
        for j in range(m):
            tot = Fraction(0)
            for l in range(k):
                tot = tot + x[i, l] * y[l, j]
            out[i, j] = tot
    return out


def t_matmul(a, b):
    """torch.matmul for 1-D / 2-D operands and batched operands with broadcast leading dimensions."""
    if not (isinstance(a, XT) and isinstance(b, XT)):
        raise Unsupported('matmul of non-tensors')
    x, y = a.a, b.a
    if x.ndim == 0 or y.ndim == 0:
        raise I.PyExc('RuntimeError', 'both arguments to matmul need to be at least 1D')
    sx, sy = x.ndim == 1, y.ndim == 1
    if sx:
        x = x.reshape(1, -1)
    if sy:
        y = y.reshape(-1, 1)
    lead = np.broadcast_shapes(x.shape[:-2], y.shape[:-2])
    xb = np.broadcast_to(x, lead + x.shape[-2:])
    yb = np.broadcast_to(y, lead + y.shape[-2:])
    out = np.empty(lead + (x.shape[-2], y.shape[-1]), dtype=object)
    for idx in np.ndindex(*lead):
        out[idx] = _mm2(xb[idx], yb[idx])
    if sx:
        out = out[..., 0, :]
    if sy:
        out = out[..., 0] if not sx else out[..., 0]
    return a._new(_ensure_arr(out), b)


def t_zeros_like(x, requires_grad=False, **kw):
    r = XT(_full(x.a.shape, Fraction(0)), dtype=x.dtype)
    if requires_grad:
        r.m_requires_grad_(True)
    return r


def t_full_like(x, fill_value, **kw):
    return XT(_full(x.a.shape, fill_value), dtype=x.dtype)


def t_zeros(*size, dtype=None, device=None, **kw):
    if len(size) == 1 and isinstance(size[0], (tuple, list)):
        size = tuple(size[0])
    return XT(_full(tuple(size), Fraction(0)), dtype=dtype or FLOAT32)


def t_tensor(data, dtype=None, device=None, **kw):
    if isinstance(data, XT):
        return data
    def conv(x):
        if isinstance(x, (list, tuple)):
            return [conv(y) for y in x]
        return x
    arr = np.empty(_shape_of(data), dtype=object)
    _fill(arr, data)
    return XT(arr, dtype=dtype or FLOAT32)


def _shape_of(d):
    if isinstance(d, (list, tuple)):
        if len(d) == 0:
            return (0,)
        return (len(d),) + _shape_of(d[0])
    return ()


def _fill(arr, d):
    if arr.ndim == 0:
        arr[()] = d
        return
    for i, x in enumerate(d):
        if arr.ndim == 1:
            arr[i] = x
        else:
            _fill(arr[i], x)


def t_repeat_interleave(x, repeats, dim=0):
    r = x._new(np.repeat(x.a, repeats, axis=dim))
    if r.rg:
        # the copies are distinct nodes of the autograd graph: give each its own formal (zero-valued) perturbation so that
        # differentiating with respect to this intermediate tensor is expressible
        flat = r.a.reshape(-1)
        names = []
        new = np.empty(flat.shape, dtype=object)
        for i in range(flat.shape[0]):
            STATE['eta_count'] += 1
            nm = f'eta{STATE["eta_count"]}'
            polymod.WEIGHTS[nm] = ('eta', 1)
            names.append(nm)
            new[i] = Poly.lift(flat[i]) + Poly.var(nm)
        r.a = new.reshape(r.a.shape)
        r.eta = names
    return r


def t_max(a, b=None):
    if b is None:
        return a.m_max()
    f = np.frompyfunc(el_max, 2, 1)
    return a._new(_ensure_arr(f(a.a, as_array(b))), b if isinstance(b, XT) else None)


def t_where(cond, a, b):
    ca = cond.a if isinstance(cond, XT) else cond
    aa, ba = as_array(a), as_array(b)
    ca, aa, ba = np.broadcast_arrays(ca, aa, ba)
    out = np.empty(ca.shape, dtype=object)
    for idx in np.ndindex(*ca.shape):
        c = ca[idx]
        if isinstance(c, bool) or isinstance(c, np.bool_):
            out[idx] = aa[idx] if c else ba[idx]
        elif isinstance(c, SB):
            out[idx] = SV(z3.If(c.e, to_z3(aa[idx]), to_z3(ba[idx])))
        else:
            raise Unsupported(f'torch.where condition element {c!r}')
    base = a if isinstance(a, XT) else b
    return base._new(out, b if isinstance(b, XT) else None)


def t_sqrt(x):
    return x.m_sqrt()


def t_abs(x):
    return x.m_abs()


def t_is_tensor(x):
    return isinstance(x, XT) or bool(getattr(x, 'is_time_tensor', False))


def t_as_strided(x, size, stride):
    return x


def install(engine):
    """Register the torch model on an Engine."""
    STATE['engine'] = engine
    engine.borrow_args = lambda q: q.startswith('torchsde._core.methods.') and q.endswith('.step')
    engine.borrow_enter = _borrow_enter
    engine.borrow_exit = _borrow_exit
    E = I.ExternFunc
    torch = engine.externs['torch']
    torch.attrs.update({
        'cat': E('torch.cat', t_cat), 'stack': E('torch.stack', t_stack), 'bmm': E('torch.bmm', t_bmm), 'matmul': E('torch.matmul', t_matmul),
        'zeros_like': E('torch.zeros_like', t_zeros_like), 'full_like': E('torch.full_like', t_full_like),
        'zeros': E('torch.zeros', t_zeros), 'tensor': E('torch.tensor', t_tensor),
        'repeat_interleave': E('torch.repeat_interleave', t_repeat_interleave),
        'max': E('torch.max', t_max), 'where': E('torch.where', t_where), 'sqrt': E('torch.sqrt', t_sqrt), 'abs': E('torch.abs', t_abs),
        'is_tensor': E('torch.is_tensor', t_is_tensor), 'as_strided': E('torch.as_strided', t_as_strided),
        'is_grad_enabled': E('torch.is_grad_enabled', lambda: STATE['grad']),
        'enable_grad': E('torch.enable_grad', lambda: GradMode(True)),
        'no_grad': E('torch.no_grad', lambda: GradMode(False)),
        'float64': FLOAT64, 'float32': FLOAT32,
        'Size': E('torch.Size', lambda x: TorchSize(x)),
        'isnan': E('torch.isnan', lambda x: XT(_map(lambda e: False, x.a))),
        'any': E('torch.any', lambda x: any(bool(e) for e in x.a.reshape(-1))),
    })
    torch.attrs['autograd'].attrs['grad'] = E('torch.autograd.grad', autograd_grad, needs_cx=True)

    def scalar_attr(eng, obj, name, cx, lineno):
        # 0-d "time tensors" represented by bare scalars (SV / Fraction / Poly)
        if isinstance(obj, (SV, Poly)) or (is_num(obj) and name in ('sqrt', 'item', 'detach', 'dim', 'is_leaf')):
            if name == 'sqrt':
                def f():
                    STATE['cx'] = cx
                    return el_sqrt(obj)
                return E('scalar.sqrt', f)
            if name in ('item', 'detach', 'cpu'):
                return E('scalar.' + name, lambda: obj)
            if name == 'is_leaf':
                return True
            if name == 'requires_grad':
                return False
            if name == 'dim':
                return E('scalar.dim', lambda: 0)
        return NotImplemented
    prev = engine.hooks.get('getattr')

    def hook(eng, obj, name, cx, lineno):
        r = scalar_attr(eng, obj, name, cx, lineno)
        if r is NotImplemented and prev is not None:
            return prev(eng, obj, name, cx, lineno)
        return r
    engine.hooks['getattr'] = hook


def mark_borrowed(*xs):
    """Harness inputs (arguments of the function under contract) and results of user functions: storage not owned by the function."""
    for x in xs:
        if isinstance(x, XT):
            x.root.borrowed = True
        elif isinstance(x, (list, tuple)):
            mark_borrowed(*x)
    return xs[0] if len(xs) == 1 else xs


def _borrow_enter(vals):
    roots = []

    def visit(v):
        if isinstance(v, XT):
            roots.append((v.root, v.root.borrowed))
            v.root.borrowed = True
        elif isinstance(v, (list, tuple)):
            for x in v:
                visit(x)
    for v in vals:
        visit(v)
    return roots


def _borrow_exit(roots):
    for r, was in reversed(roots):
        r.borrowed = was
