"""H domain: symbolic heap for linked structures (objects are z3 Ints, 0 is None; every field is a
z3 array Ref -> value; allocation bumps `nalloc`).  The heap lives in cx.state['heap'] so that it is
rebuilt on every explored path."""
import z3

from . import interp as I
from .values import SV, SB, OptVal, SymRef, Unsupported, to_z3, b2z

Z = z3.IntSort()
R = z3.RealSort()
B = z3.BoolSort()


class FieldSpec:
    def __init__(self, name, sort, optional=False, ref=False, guard=None):
        self.name = name
        self.sort = sort
        self.optional = optional     # Optional[...] : companion Bool array name#none
        self.ref = ref               # holds a reference (Int)
        self.guard = guard           # callable(heap, ref_expr) -> z3 Bool that must hold for the read not to raise AttributeError


class Heap:
    def __init__(self, cx, fields, prefix='h'):
        self.cx = cx
        self.specs = {f.name: f for f in fields}
        self.arr = {}
        for f in fields:
            self.arr[f.name] = cx.fresh(f'{prefix}.{f.name}', z3.ArraySort(Z, f.sort))
            if f.optional:
                self.arr[f.name + '#none'] = cx.fresh(f'{prefix}.{f.name}#none', z3.ArraySort(Z, B))
        self.nalloc = cx.fresh(f'{prefix}.nalloc', Z)

    def snapshot(self):
        h = object.__new__(Heap)
        h.cx = self.cx
        h.specs = self.specs
        h.arr = dict(self.arr)
        h.nalloc = self.nalloc
        return h

    def havoc(self, prefix='h'):
        cx = self.cx
        for name, a in list(self.arr.items()):
            self.arr[name] = cx.fresh(f'{prefix}.{name}', a.sort())
        self.nalloc = cx.fresh(f'{prefix}.nalloc', Z)

    def sel(self, name, ref):
        return z3.Select(self.arr[name], ref)

    def alloc(self, ref):
        return z3.And(ref >= 1, ref <= self.nalloc)

    def new(self):
        self.nalloc = self.nalloc + 1
        return self.nalloc

    # ---- reads / writes used by the interpreter hooks
    def read(self, ref, name, cx, lineno, kind):
        f = self.specs[name]
        cx.oblige(f'no-raise.AttributeError(None.{name})@L{lineno}', ref != 0, 'no-raise', lineno)
        if f.guard is not None:
            cx.oblige(f'no-raise.AttributeError(unset {name})@L{lineno}', f.guard(self, ref), 'no-raise', lineno)
        v = z3.simplify(z3.Select(self.arr[name], ref))
        if f.optional:
            return OptVal(z3.simplify(z3.Select(self.arr[name + '#none'], ref)), SV(v))
        if f.ref:
            return SymRef(v, kind)
        if f.sort == B:
            return SB(v)
        return SV(v)

    def write(self, ref, name, v, cx, lineno):
        f = self.specs[name]
        cx.oblige(f'no-raise.AttributeError(None.{name}=)@L{lineno}', ref != 0, 'no-raise', lineno)
        if f.optional:
            if v is None:
                self.arr[name + '#none'] = z3.Store(self.arr[name + '#none'], ref, z3.BoolVal(True))
                return
            if isinstance(v, OptVal):
                self.arr[name + '#none'] = z3.Store(self.arr[name + '#none'], ref, v.isnone)
                self.arr[name] = z3.Store(self.arr[name], ref, to_z3(v.val))
                return
            self.arr[name + '#none'] = z3.Store(self.arr[name + '#none'], ref, z3.BoolVal(False))
        if f.ref:
            e = z3.IntVal(0) if v is None else v.e
        elif f.sort == B:
            e = z3.BoolVal(False) if v is None else b2z(v)
        else:
            e = to_z3(v)
            if f.sort == R and e.sort() == Z:
                e = z3.ToReal(e)
        self.arr[name] = z3.Store(self.arr[name], ref, e)
