"""A domain: abstract tensors of *arbitrary* shape.

A value is a polynomial (pyvc.poly.Poly) over tensor atoms and scalar symbols.  Tensors form a
module over the scalars, `prod(g, v)` is bilinear, and the element-wise product of diagonal noise
is commutative - these are exactly the laws of polynomial arithmetic, so an identity that holds
between the polynomial images holds for every batch/state/noise size.  Soundness conditions that
are checked (else Unsupported): every monomial of a tensor value contains tensor atoms of
compatible kinds (a vector, or matrix x vector); no division by tensors.

User functions are uninterpreted: F(t, z) is an atom named by the normal form of (t, z)
(congruence by normal form; distinct normal forms give unrelated atoms, which only adds models).
"""
from fractions import Fraction

from .poly import Poly
from .values import Unsupported, is_num, SV
from . import interp as I

KINDS = {}   # atom name -> 'vec' | 'mat' | 'scal'


def atom(name, kind):
    KINDS[name] = kind
    return AT(Poly.var(name), kind)


class AT:
    """Abstract tensor: polynomial `p` + kind ('vec': (B,d)-like, 'mat': (B,d,m)-like, 'scal': scalar)."""
    __slots__ = ('p', 'kind')

    def __init__(self, p, kind):
        self.p = p
        self.kind = kind

    # -------------------------------------------------------------- arithmetic
    def _coerce(self, o):
        if isinstance(o, AT):
            return o
        q = Poly.lift(o)
        if q is not None:
            return AT(q, 'scal')
        return None

    def __add__(self, o):
        o = self._coerce(o)
        if o is None:
            return NotImplemented
        if o.kind != self.kind and not (o.p.is_zero() or self.p.is_zero()):
            if 'scal' in (o.kind, self.kind):
                raise Unsupported('A domain: adding a scalar to a tensor (broadcast) is not linear')
            raise Unsupported(f'A domain: adding {self.kind} and {o.kind}')
        return AT(self.p + o.p, self.kind if not self.p.is_zero() else o.kind)

    __radd__ = __add__

    def __neg__(self):
        return AT(-self.p, self.kind)

    def __sub__(self, o):
        o = self._coerce(o)
        if o is None:
            return NotImplemented
        return self + (-o)

    def __rsub__(self, o):
        o = self._coerce(o)
        if o is None:
            return NotImplemented
        return o + (-self)

    def __mul__(self, o):
        o = self._coerce(o)
        if o is None:
            return NotImplemented
        if self.kind == 'scal':
            return AT(self.p * o.p, o.kind)
        if o.kind == 'scal':
            return AT(self.p * o.p, self.kind)
        if self.kind == 'vec' and o.kind == 'vec':
            return AT(self.p * o.p, 'vec')          # element-wise product (commutative, bilinear)
        raise Unsupported(f'A domain: element-wise product of {self.kind} and {o.kind}')

    __rmul__ = __mul__

    def __truediv__(self, o):
        o = self._coerce(o)
        if o is None:
            return NotImplemented
        if o.kind != 'scal':
            raise Unsupported('A domain: division by a tensor')
        return AT(self.p / o.p, self.kind)

    def __pow__(self, n):
        raise Unsupported('A domain: tensor power (use the X domain)')

    __hash__ = None

    def __eq__(self, o):
        o = self._coerce(o)
        if o is None:
            return NotImplemented
        return self.p == o.p

    def __repr__(self):
        return f'AT<{self.kind}>({self.p!r})'

    # -------------------------------------------------------------- tensor protocol
    def __pyvc_isinstance__(self, engine, c):
        return isinstance(c, I.ExternBase) and c.name == 'torch.Tensor'

    def __pyvc_getattr__(self, engine, name, cx, lineno):
        if name in ('unsqueeze', 'squeeze'):
            return I.ExternFunc('AT.' + name, lambda *a, **k: self)   # shape bookkeeping only
        if name == 'detach':
            return I.ExternFunc('AT.detach', lambda: self)
        if name == 'requires_grad':
            return False
        if name == 'sqrt' and self.kind == 'scal':
            from .tensor import el_sqrt
            return I.ExternFunc('AT.sqrt', lambda: AT(el_sqrt(self.p), 'scal'))
        raise Unsupported(f'A domain: Tensor.{name}')


def bmm(a, b):
    if not (isinstance(a, AT) and isinstance(b, AT)):
        return NotImplemented
    if a.kind == 'mat' and b.kind == 'vec':
        return AT(a.p * b.p, 'vec')
    raise Unsupported(f'A domain: bmm of {a.kind} and {b.kind}')


def check_linear(x):
    """Every monomial of a tensor value must contain exactly one 'vec' atom, or one 'mat' and one 'vec' atom
    (matrix times vector), or - for element-wise products of diagonal noise - vec atoms only."""
    for m in x.p.t:
        kinds = []
        for v, e in m:
            k = KINDS.get(v)
            if k in ('vec', 'mat'):
                kinds.extend([k] * e)
        if x.kind in ('vec', 'mat') and not kinds:
            raise Unsupported(f'A domain: tensor monomial without tensor atom: {m}')
        if kinds.count('mat') > 1:
            raise Unsupported(f'A domain: two matrix atoms in one monomial: {m}')


class AFunction:
    """Uninterpreted user function on abstract tensors: atom named by the normal form of the arguments."""

    def __init__(self, name, kind):
        self.name = name
        self.kind = kind
        self.atoms = {}

    def __pyvc_call__(self, engine, args, kwargs, cx, lineno):
        return self.evaluate(*args)

    def evaluate(self, t, y):
        tp = t.p if isinstance(t, AT) else Poly.lift(t)
        if tp is None or not isinstance(y, AT):
            raise Unsupported(f'A domain: {self.name}({t!r}, {y!r})')
        key = (tp.key(), y.p.key())
        if key not in self.atoms:
            nm = f'{self.name}#{len(self.atoms)}'
            self.atoms[key] = nm
            KINDS[nm] = self.kind
        return AT(Poly.var(self.atoms[key]), self.kind)

    def arg_of(self, atom_name):
        for k, v in self.atoms.items():
            if v == atom_name:
                return k
        return None


def install(engine):
    """torch.bmm on abstract tensors."""
    torch = engine.externs['torch']
    prev = torch.attrs.get('bmm')

    def bmm_model(a, b):
        if isinstance(a, AT) or isinstance(b, AT):
            return bmm(a, b)
        return prev.fn(a, b)
    torch.attrs['bmm'] = I.ExternFunc('torch.bmm', bmm_model)
