"""Contracts (requires/ensures/raises), loop specifications and the verification driver."""
import ast

import z3

from .interp import PyExc, PathEnd, _Break, _Continue, _Return, Frame
from .values import SV, SB, Unsupported, b2z


class Contract:
    """Sidecar contract of one function of /repo.

    Subclasses define (all formulas are z3 Bools over the symbolic argument values):
      qualname            - function under contract
      harness(E, cx)      - dict of symbolic arguments used when the body is verified
      requires(E, cx, a)  - [(name, formula)]
      result(E, cx, a)    - a fresh result value (used at call sites)
      ensures(E, cx, a, r)- [(name, formula)]
      may_raise(E, cx, a) - {exception name: condition under which it is allowed}
      must_raise(E, cx, a)- {exception name: condition under which it is required}
    """
    qualname = None
    pure = True

    def harness(self, E, cx):
        raise NotImplementedError

    def requires(self, E, cx, a):
        return []

    def result(self, E, cx, a):
        return None

    def ensures(self, E, cx, a, r):
        return []

    def may_raise(self, E, cx, a):
        return {}

    def must_raise(self, E, cx, a):
        return {}

    def before_body(self, E, cx, a):
        """Hook: ghost state initialisation before the body runs."""

    # call-site use --------------------------------------------------------
    def apply(self, E, cx, a, lineno):
        short = self.qualname.split('.')[-1]
        for n, f in self.requires(E, cx, a):
            cx.oblige(f'call-pre.{short}.{n}@L{lineno}', f, 'call-pre', lineno)
        r = self.result(E, cx, a)
        for item in self.ensures(E, cx, a, r):
            cx.assume(item[1])
        return r


def verify(E, contract, label=None, args_order=None):
    """Verify the body of contract.qualname against the contract. Returns summary dict."""
    q = contract.qualname
    fv = E.function(q)
    label = label or q.split('.', 1)[1] if q.startswith('torchsde.') else q
    covered = {'normal': 0, 'raise': 0, 'end': 0}

    def run(cx):
        a = contract.harness(E, cx)
        for n, f in contract.requires(E, cx, a):
            cx.assume(f)
        if not cx.feasible():
            raise Unsupported(f'{q}: precondition unsatisfiable (vacuous contract)')
        contract.before_body(E, cx, a)
        E.verifying = q
        names = [x.arg for x in fv.node.args.posonlyargs + fv.node.args.args]
        pos = []
        for n in names:
            if n not in a:
                break
            pos.append(a[n])
        kw = {k: v for k, v in a.items() if k not in names[:len(pos)] and not k.startswith('$')}
        try:
            r = E.call_function(fv, pos, kw, cx, fv.node.lineno)
        except PyExc as e:
            covered['raise'] += 1
            allowed = contract.may_raise(E, cx, a).get(e.cls)
            must = contract.must_raise(E, cx, a).get(e.cls)
            if must is not None:
                cx.oblige(f'{label}/raises.{e.cls}.only-when-required@L{e.lineno}', must, 'raises', e.lineno)
            elif allowed is not None:
                cx.oblige(f'{label}/raises.{e.cls}.allowed@L{e.lineno}', allowed, 'raises', e.lineno)
            else:
                cx.oblige(f'{label}/no-raise.{e.cls}@L{e.lineno}', z3.BoolVal(False), 'no-raise', e.lineno)
            return None
        covered['normal'] += 1
        for exc, cond in contract.must_raise(E, cx, a).items():
            cx.oblige(f'{label}/raises.{exc}.required', z3.Not(b2z(cond)), 'raises')
        for item in contract.ensures(E, cx, a, r):
            if isinstance(item, dict):
                cx.oblige(f'{label}/post.{item["name"]}', item['goal'], 'post', pivots=item.get('pivots'),
                          ground_only=item.get('ground', False))
                continue
            n, f = item[0], item[1]
            cx.oblige(f'{label}/post.{n}', f, 'post', pivots=(item[2] if len(item) > 2 else None))
        return r

    n0 = len(E.all_obligations)
    results = E.explore(run, label)
    E.verifying = None
    for cx, out in results:
        if out[0] == 'end':
            covered['end'] += 1
    obs = E.all_obligations[n0:]
    # rename obligations generated inside the body (no-raise, call-pre, loop-*) to carry the function label
    for ob in obs:
        if not ob.name.startswith(label + '/'):
            ob.name = f'{label}/{ob.name}'
    return {'function': q, 'paths': len(results), 'covered': covered, 'obligations': obs}


def _inv_assume(cx, items):
    for it in items:
        cx.assume(it['goal'] if isinstance(it, dict) else it[1])


def _inv_oblige(cx, items, prefix, kind, lineno):
    for it in items:
        if isinstance(it, dict):
            goal = it['goal']
            if it.get('hints'):
                goal = z3.Implies(z3.And(*it['hints']), goal)
            ob = cx.oblige(f'{prefix}.{it["name"]}', goal, kind, lineno, assume_after=False, ground_only=it.get('ground', False))
            cx.assume(it['goal'])
        else:
            cx.oblige(f'{prefix}.{it[0]}', it[1], kind, lineno)


class LoopSpec:
    """Inductive loop specification keyed by (function qualname, loop ordinal)."""
    modifies = ()
    index_name = '$i'

    def inv(self, E, cx, env, entry):
        return []

    def havoc(self, E, cx, env, entry):
        """Return {name: fresh value} for every modified local."""
        raise NotImplementedError

    def measure(self, E, cx, env, entry):
        return None

    def after_havoc(self, E, cx, env, entry):
        pass

    def ghost_step(self, E, cx, env, entry):
        """Ghost update performed after the loop body, before the invariant is re-established."""

    def before_body(self, E, cx, env, entry):
        """Hook at the start of the inductive-step iteration (after the loop variable is bound)."""

    # ------------------------------------------------------------------
    def _assigned(self, st):
        """Locals of the enclosing function assigned in st (comprehension variables and nested functions have their own scope)."""
        names = set()

        def visit(node):
            for ch in ast.iter_child_nodes(node):
                if isinstance(ch, (ast.ListComp, ast.SetComp, ast.DictComp, ast.GeneratorExp, ast.Lambda, ast.FunctionDef, ast.AsyncFunctionDef, ast.ClassDef)):
                    continue
                if isinstance(ch, ast.Name) and isinstance(ch.ctx, (ast.Store, ast.Del)):
                    names.add(ch.id)
                visit(ch)
        visit(st)
        return names

    def _check_modifies(self, st, extra=()):
        """Locals assigned in the loop but unknown to the specification are reported back; they are
        havoc'd generically and every refutation on such a path is downgraded to `undecided`
        (the invariant's vocabulary does not cover the loop state: contract needs attention)."""
        assigned = self._assigned(st)
        return sorted(assigned - set(self.modifies) - set(extra))

    def _iteration_temporaries(self, st, fr, names):
        """Subset of `names` that cannot carry a value from one iteration to the next or out of the loop, so that the invariant need
        not speak about them:  (a) the first top-level statement of the loop body that mentions the name is a plain assignment
        `name = expr` whose right-hand side does not read it;  (b) the loop test / iterable does not mention it;  (c) it is not read
        anywhere in the enclosing function outside this loop statement."""
        func = getattr(getattr(fr, 'func', None), 'node', None)
        if func is None or not names:
            return set()

        def mentions(node, nm):
            return any(isinstance(n, ast.Name) and n.id == nm for n in ast.walk(node))
        inside = {id(n) for n in ast.walk(st)}
        out = set()
        for nm in names:
            head = st.test if isinstance(st, ast.While) else st.iter
            if mentions(head, nm):
                continue
            if any(isinstance(n, ast.Name) and n.id == nm and isinstance(n.ctx, ast.Load) and id(n) not in inside for n in ast.walk(func)):
                continue
            first = next((b for b in st.body if mentions(b, nm)), None)
            if (isinstance(first, ast.Assign) and len(first.targets) == 1 and isinstance(first.targets[0], ast.Name)
                    and first.targets[0].id == nm and not mentions(first.value, nm)):
                out.add(nm)
        return out

    def _havoc_unknown(self, E, cx, fr, names):
        import z3 as _z3
        for nm in names:
            cur = fr.locals.get(nm)
            if isinstance(cur, SV):
                fr.locals[nm] = type(cur)(cx.fresh('hv_' + nm, cur.e.sort()))
            elif isinstance(cur, bool) or cur is None:
                continue
            elif isinstance(cur, int):
                fr.locals[nm] = SV(cx.fresh('hv_' + nm, _z3.IntSort()))
            elif hasattr(cur, 'numerator'):
                fr.locals[nm] = SV(cx.fresh('hv_' + nm, _z3.RealSort()))
            elif hasattr(cur, 'e') and hasattr(cur.e, 'sort') and type(cur).__name__ == 'Opaque':
                fr.locals[nm] = type(cur)(cx.fresh('hv_' + nm, cur.e.sort()))
        if names:
            cx.state['weak_invariant'] = f'loop assigns locals outside the invariant vocabulary: {names}'

    def _inv(self, E, cx, env, entry, lab):
        """The invariant at this program point; when it mentions a local that is not (yet) assigned here, the invariant is not expressible for
        this code: every verdict on this path is downgraded to undecided (contract needs attention), never a violation."""
        try:
            return self.inv(E, cx, env, entry)
        except KeyError as e:
            cx.state['weak_invariant'] = f'loop invariant of {lab} mentions the local {e} which is not assigned at this point'
            cx.oblige(f'loop-invariant-expressible.{lab}', z3.BoolVal(False), 'loop-init', None, assume_after=False)
            raise PathEnd('invariant not expressible')

    def _label(self, fr, st):
        return f'loop{st.lineno}'

    def run_while(self, E, st, fr, cx):
        unknown = self._check_modifies(st)
        unknown = [n for n in unknown if n not in self._iteration_temporaries(st, fr, unknown)]
        lab = self._label(fr, st)
        entry = dict(fr.locals)
        _inv_oblige(cx, self._inv(E, cx, fr.locals, entry, lab), f'loop-init.{lab}', 'loop-init', st.lineno)
        ch = cx.choice(2, lab)
        fr.locals.update(self.havoc(E, cx, fr.locals, entry))
        self._havoc_unknown(E, cx, fr, unknown)
        self.after_havoc(E, cx, fr.locals, entry)
        _inv_assume(cx, self._inv(E, cx, fr.locals, entry, lab))
        c = E.eval(st.test, fr, cx)
        if ch == 0:
            self._assume_cond(E, cx, c, True)
            m0 = self.measure(E, cx, fr.locals, entry)
            try:
                E.exec_block(st.body, fr, cx)
            except _Continue:
                pass
            except _Break:
                return
            self.ghost_step(E, cx, fr.locals, entry)
            _inv_oblige(cx, self._inv(E, cx, fr.locals, entry, lab), f'loop-preserve.{lab}', 'loop-preserve', st.lineno)
            if m0 is not None:
                m1 = self.measure(E, cx, fr.locals, entry)
                self._decreases(cx, lab, m0, m1, st.lineno)
            raise PathEnd('inductive step complete')
        else:
            self._assume_cond(E, cx, c, False)

    def _decreases(self, cx, lab, m0, m1, lineno):
        # measures are tuples of z3 Int terms, compared lexicographically, each bounded below by 0
        if not isinstance(m0, tuple):
            m0, m1 = (m0,), (m1,)
        dec = z3.BoolVal(False)
        eq = z3.BoolVal(True)
        for a, b in zip(m0, m1):
            dec = z3.Or(dec, z3.And(eq, b < a, a >= 0))
            eq = z3.And(eq, a == b)
        cx.oblige(f'decreases.{lab}', dec, 'decreases', lineno)

    def _assume_cond(self, E, cx, c, val):
        if hasattr(c, '__pyvc_len__') and not isinstance(c, (SB, bool)):
            ln = c.__pyvc_len__()
            c = SB(ln.e != 0) if isinstance(ln, SV) else (ln != 0)
        if isinstance(c, SB):
            cx.assume(c.e if val else z3.Not(c.e))
            if not cx.feasible():
                raise PathEnd('infeasible loop condition')
        else:
            if E.truthy(c) != val:
                raise PathEnd('infeasible loop condition')

    def seq_len(self, E, cx, it):
        raise NotImplementedError

    def seq_get(self, E, cx, it, i):
        raise NotImplementedError

    def run_for(self, E, st, fr, cx, it):
        """for <target> in <symbolic sequence>: ghost index $i counts completed iterations."""
        tnames = {n.id for n in ast.walk(st.target) if isinstance(n, ast.Name)}
        unknown = self._check_modifies(st, extra=tnames)
        unknown = [n for n in unknown if n not in self._iteration_temporaries(st, fr, unknown)]
        lab = self._label(fr, st)
        entry = dict(fr.locals)
        n_len = self.seq_len(E, cx, it)
        fr.locals[self.index_name] = 0
        _inv_oblige(cx, self._inv(E, cx, fr.locals, entry, lab), f'loop-init.{lab}', 'loop-init', st.lineno)
        ch = cx.choice(2, lab)
        fr.locals.update(self.havoc(E, cx, fr.locals, entry))
        self._havoc_unknown(E, cx, fr, unknown)
        i = cx.int('i')
        cx.assume(i.e >= 0)
        fr.locals[self.index_name] = i
        self.after_havoc(E, cx, fr.locals, entry)
        _inv_assume(cx, self._inv(E, cx, fr.locals, entry, lab))
        if ch == 0:
            cx.assume(i.e < b2z_int(n_len))
            if not cx.feasible():
                raise PathEnd('no iteration')
            E.assign(st.target, self.seq_get(E, cx, it, i), fr, cx)
            self.before_body(E, cx, fr.locals, entry)
            try:
                E.exec_block(st.body, fr, cx)
            except _Continue:
                pass
            except _Break:
                fr.locals.pop(self.index_name, None)
                return
            fr.locals[self.index_name] = i + 1
            self.ghost_step(E, cx, fr.locals, entry)
            _inv_oblige(cx, self._inv(E, cx, fr.locals, entry, lab), f'loop-preserve.{lab}', 'loop-preserve', st.lineno)
            raise PathEnd('inductive step complete')
        else:
            cx.assume(i.e == b2z_int(n_len))
            if not cx.feasible():
                raise PathEnd('infeasible exit')
            # keep $i available to the postcondition via entry-independent name
            fr.locals[self.index_name + lab] = i
            fr.locals.pop(self.index_name, None)
            if st.orelse:
                E.exec_block(st.orelse, fr, cx)


def b2z_int(x):
    if isinstance(x, SV):
        return x.e
    if isinstance(x, int):
        return z3.IntVal(x)
    raise Unsupported(f'sequence length {x!r}')
