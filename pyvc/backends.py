"""Second-opinion back ends for obligations z3 (python API) leaves `unknown`."""
import os
import re
import subprocess
import tempfile


def _run(cmd, text, timeout):
    with tempfile.NamedTemporaryFile('w', suffix='.smt2', delete=False) as fh:
        fh.write(text)
        path = fh.name
    try:
        p = subprocess.run(cmd + [path], capture_output=True, text=True, timeout=timeout + 5)
        return p.stdout.strip()
    except subprocess.TimeoutExpired:
        return 'timeout'
    finally:
        os.unlink(path)


def second_opinion(smt2, timeout_s):
    text = smt2
    if '(check-sat)' not in text:
        text += '\n(check-sat)\n'
    for name, cmd in (('cvc5-1.0.3', ['/usr/bin/cvc5', '--lang=smt2', '--strings-exp', f'--tlimit={timeout_s * 1000}']),
                      ('z3-4.8.12', ['/usr/bin/z3', f'-T:{timeout_s}'])):
        if not os.path.exists(cmd[0]):
            continue
        t = text
        if name.startswith('cvc5'):
            t = '(set-logic ALL)\n' + re.sub(r'\(set-info[^\n]*\n', '', text)
        out = _run(cmd, t, timeout_s)
        first = out.splitlines()[0] if out else ''
        if first == 'unsat':
            return 'unsat', name, None
        if first == 'sat':
            return 'sat', name, {'note': 'model not extracted from ' + name}
    return 'unknown', None, None
