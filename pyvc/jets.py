"""User functions for the J / X / A domains.

JetFunction  - an arbitrary smooth row-wise function given by its partial derivatives (jets)
               at a base point; evaluating it at base + nilpotent perturbation yields the
               Taylor polynomial (exact under the configured truncation).
UFunction    - an uninterpreted row-wise function: the value at an argument tuple is a fresh
               atom named by the *normal form* of the arguments (congruence by normal form;
               distinct normal forms give unrelated atoms, which only adds models).
"""
import itertools
import math
from fractions import Fraction

import numpy as np

from .poly import Poly
from . import poly as polymod
from .tensor import XT, STATE, el_detach
from .values import Unsupported, is_num
from . import interp as I


def _is_nilpotent(p):
    """Every monomial carries positive weight in some truncated group."""
    for m in p.t:
        ok = False
        for v, e in m:
            gw = polymod.WEIGHTS.get(v)
            if gw is not None and gw[0] in polymod.LIMITS and gw[1] * e > 0:
                ok = True
                break
        if not ok:
            return False
    return True


def _powers(p):
    """[p^0, p^1, ...] until the power vanishes under truncation."""
    out = [Poly.const(1)]
    cur = Poly.const(1)
    for _ in range(64):
        cur = cur * p
        if cur.is_zero():
            return out
        out.append(cur)
    raise Unsupported('perturbation is not nilpotent under the configured truncation')


def scalar_poly(x):
    if isinstance(x, XT):
        if x.a.size != 1:
            raise Unsupported('time argument is not a scalar')
        x = x.a.reshape(-1)[0]
    p = Poly.lift(x)
    if p is None:
        raise Unsupported(f'time argument {x!r} is not polynomial')
    return p


class JetFunction:
    """phi: (t, y[b, :], theta) -> R^{out...}, applied to each batch row.

    name        symbol prefix
    d           state size
    out         per-row output shape, e.g. (d,) or (d, m)
    base_t      Poly (base time)
    base_y      numpy object array (B, d) of Poly base-point symbols
    params      list of (base Poly, XT holder) scalar parameters the function depends on
    elementwise output component i depends only on y[b, i] (diagonal noise convention)
    tdep        function depends on time
    """

    def __init__(self, name, d, out, base_t, base_y, params=(), elementwise=False, tdep=True, sign_t=1):
        self.name = name
        self.d = d
        self.out = tuple(out)
        self.base_t = base_t
        self.base_y = base_y
        self.params = list(params)
        self.elementwise = elementwise
        self.tdep = tdep
        self.ydep = True
        self.calls = 0
        self.symbols = set()

    def sym(self, comp, b, alpha):
        """Jet symbol: d^alpha phi_comp at the base point of row b. alpha=(i_t, j_1..j_d, q_1..q_p)."""
        it = alpha[0]
        js = alpha[1:1 + self.d]
        qs = alpha[1 + self.d:]
        nm = f'{self.name}{"".join(map(str, comp))}_r{b}_t{it}y{"".join(map(str, js))}'
        if qs:
            nm += 'p' + ''.join(map(str, qs))
        self.symbols.add(nm)
        return nm

    def __pyvc_call__(self, engine, args, kwargs, cx, lineno):
        t, y = args[0], args[1]
        return self.evaluate(t, y)

    def evaluate(self, t, y):
        self.calls += 1
        tp = scalar_poly(t)
        a = tp - self.base_t
        if not self.tdep:
            a = Poly()
        if not _is_nilpotent(a):
            raise Unsupported(f'{self.name}: time argument {tp!r} is not base + nilpotent')
        if not isinstance(y, XT) or y.a.ndim != 2 or y.a.shape[1] != self.d:
            raise I.PyExc('RuntimeError', f'{self.name}: state of shape {getattr(y, "shape", None)}; expected (B,{self.d})')
        B = y.a.shape[0]
        if B != self.base_y.shape[0]:
            raise Unsupported(f'{self.name}: batch {B} != base batch {self.base_y.shape[0]}')
        out = np.empty((B,) + self.out, dtype=object)
        apow = _powers(a)
        ppows = []
        for base, holder in self.params:
            cur = holder.a.reshape(-1)[0] if isinstance(holder, XT) else holder
            dp = Poly.lift(cur) - base
            if not _is_nilpotent(dp):
                raise Unsupported(f'{self.name}: parameter is not base + nilpotent')
            ppows.append(_powers(dp))
        for b in range(B):
            bpows = []
            for k in range(self.d):
                db = Poly.lift(y.a[b, k]) - self.base_y[b, k]
                if not _is_nilpotent(db):
                    raise Unsupported(f'{self.name}: state argument row {b} comp {k} is not base + nilpotent: {db!r}')
                bpows.append(_powers(db))
            for comp in itertools.product(*[range(n) for n in self.out]):
                if not self.ydep:
                    ylists = [bp[:1] for bp in bpows]
                elif self.elementwise:
                    # component comp depends only on y[b, comp[0]]
                    ylists = [bp if k == comp[0] else bp[:1] for k, bp in enumerate(bpows)]
                else:
                    ylists = bpows
                tot = Poly()
                for alpha in itertools.product(*([range(len(apow))] + [range(len(l)) for l in ylists] +
                                                 [range(len(l)) for l in ppows])):
                    term = apow[alpha[0]]
                    for k, l in enumerate(ylists):
                        term = term * l[alpha[1 + k]]
                        if term.is_zero():
                            break
                    else:
                        for k, l in enumerate(ppows):
                            term = term * l[alpha[1 + self.d + k]]
                            if term.is_zero():
                                break
                    if term.is_zero():
                        continue
                    fact = 1
                    for n in alpha:
                        fact *= math.factorial(n)
                    tot = tot + term * Poly.var(self.sym(comp, b, alpha)) * Fraction(1, fact)
                out[(b,) + comp] = tot
        rg = STATE['grad'] and (y.rg or any(isinstance(h, XT) and h.rg for _, h in self.params))
        if not STATE['grad']:
            from .tensor import _map
            out = _map(el_detach, out)
        res = XT(out, rg=rg, leaf=not rg, dtype=y.dtype)
        res.borrowed = True       # storage owned by user code (a user function may return its argument or a tensor it keeps): never written in place
        return res


def shift_symbol(name, which, d):
    """Derivative of a jet symbol name with respect to t (which='t') or y_k (which=k)."""
    head, tail = name.rsplit('_t', 1)
    if 'p' in tail:
        ty, ps = tail.split('p')
    else:
        ty, ps = tail, None
    it, js = ty.split('y')
    it = int(it)
    js = [int(c) for c in js]
    if which == 't':
        it += 1
    else:
        js[which] += 1
    nm = f'{head}_t{it}y{"".join(map(str, js))}'
    if ps is not None:
        nm += 'p' + ps
    return nm


class UFunction:
    """Uninterpreted row-wise function: value = atom named by the normal form of the arguments."""

    def __init__(self, name, d, out, elementwise=False):
        self.name = name
        self.d = d
        self.out = tuple(out)
        self.elementwise = elementwise
        self.atoms = {}

    def __pyvc_call__(self, engine, args, kwargs, cx, lineno):
        return self.evaluate(args[0], args[1])

    def evaluate(self, t, y):
        tp = scalar_poly(t)
        if not isinstance(y, XT) or y.a.ndim != 2 or y.a.shape[1] != self.d:
            raise I.PyExc('RuntimeError', f'{self.name}: state of shape {getattr(y, "shape", None)}')
        B = y.a.shape[0]
        out = np.empty((B,) + self.out, dtype=object)
        for b in range(B):
            for comp in itertools.product(*[range(n) for n in self.out]):
                if self.elementwise:
                    key = (comp, tp.key(), Poly.lift(y.a[b, comp[0]]).key())
                else:
                    key = (comp, tp.key(), tuple(Poly.lift(y.a[b, k]).key() for k in range(self.d)))
                if key not in self.atoms:
                    self.atoms[key] = f'{self.name}{"".join(map(str, comp))}#{len(self.atoms)}'
                out[(b,) + comp] = Poly.var(self.atoms[key])
        return XT(out, dtype=y.dtype)


class DynJetFunction:
    """Smooth user function for *exact* (non-perturbative) identities with autograd.

    The value at an argument is expanded around the argument's own eta-free part:
        phi(t, y0 + dy, th0 + dth) = sum_alpha  D^alpha phi [t, y0, th0] * dy^alpha dth^alpha / alpha!
    where (t, y0, th0) is the argument with every autograd perturbation variable set to zero, dy/dth
    are the (nilpotent) eta parts, and the derivative atoms D^alpha phi[point] are named by the
    normal form of the point.  With eta-free arguments this is an uninterpreted function.
    """

    def __init__(self, name, d, out, params=(), elementwise=False, ydep=True):
        self.name = name
        self.d = d
        self.out = tuple(out)
        self.params = list(params)      # XT scalar leaves the function depends on
        self.elementwise = elementwise
        self.ydep = ydep
        self.points = {}
        self.calls = 0

    def _point(self, key):
        if key not in self.points:
            self.points[key] = len(self.points)
        return self.points[key]

    def __pyvc_call__(self, engine, args, kwargs, cx, lineno):
        return self.evaluate(args[0], args[1])

    def evaluate(self, t, y):
        self.calls += 1
        tp = el_detach(scalar_poly(t))
        if not isinstance(y, XT) or y.a.ndim != 2 or y.a.shape[1] != self.d:
            raise I.PyExc('RuntimeError', f'{self.name}: state of shape {getattr(y, "shape", None)}; expected (B,{self.d})')
        B = y.a.shape[0]
        if y.rg and getattr(y, 'eta', None) is None:
            # y is an intermediate node of the autograd graph: give it formal zero-valued perturbations so that a later
            # torch.autograd.grad(..., inputs=y) (as in dg_ga_jvp_column_sum_v1) is expressible; values are unaffected
            from .tensor import STATE as _ST
            from . import poly as _pm
            names = []
            for _ in range(y.a.size):
                _ST['eta_count'] += 1
                nm = f'eta{_ST["eta_count"]}'
                _pm.WEIGHTS[nm] = ('eta', 1)
                names.append(nm)
            y.eta = names
            y.eta_aux = True
        aux = None
        if getattr(y, 'eta_aux', False):
            aux = np.array([Poly.var(nm) for nm in y.eta], dtype=object).reshape(y.a.shape)
        track = STATE['grad'] or STATE['transparent']     # without grad the result is detached anyway: skip the expansion
        out = np.empty((B,) + self.out, dtype=object)
        pvals = []
        for h in self.params:
            cur = Poly.lift(h.a.reshape(-1)[0])
            base = el_detach(cur)
            pvals.append((base, _powers(cur - base) if track else [Poly.const(1)]))
        for b in range(B):
            bases, pows = [], []
            for k in range(self.d):
                cur = Poly.lift(y.a[b, k])
                base = el_detach(cur)
                if aux is not None:
                    cur = cur + aux[b, k]
                bases.append(base)
                pows.append(_powers(cur - base) if track else [Poly.const(1)])
            for comp in itertools.product(*[range(n) for n in self.out]):
                if not self.ydep:
                    use = []
                elif self.elementwise:
                    use = [comp[0]]
                else:
                    use = list(range(self.d))
                key = (comp, tp.key(), tuple(bases[k].key() for k in use), tuple(pb.key() for pb, _ in pvals))
                if not self.ydep and getattr(self, 'per_row', False):
                    key = key + (('row', b),)      # state-independent, but each batch row may have its own value (e.g. a per-sample noise scale)
                pid = self._point(key)
                ylists = [pows[k] if k in use else pows[k][:1] for k in range(self.d)]
                tot = Poly()
                for alpha in itertools.product(*([range(len(l)) for l in ylists] + [range(len(pw)) for _, pw in pvals])):
                    term = Poly.const(1)
                    for k, l in enumerate(ylists):
                        term = term * l[alpha[k]]
                    for k, (_, pw) in enumerate(pvals):
                        term = term * pw[alpha[self.d + k]]
                    if term.is_zero():
                        continue
                    fact = 1
                    for n in alpha:
                        fact *= math.factorial(n)
                    sym = f'{self.name}{"".join(map(str, comp))}@{pid}_d{"".join(map(str, alpha))}'
                    tot = tot + term * Poly.var(sym) * Fraction(1, fact)
                out[(b,) + comp] = tot
        rg = (STATE['grad'] or STATE['transparent']) and (y.rg or any(h.rg for h in self.params))
        if not STATE['grad'] and not STATE['transparent']:
            from .tensor import _map
            out = _map(el_detach, out)
        res = XT(out, rg=rg, leaf=not rg, dtype=y.dtype)
        res.borrowed = True       # storage owned by user code (a user function may return its argument or a tensor it keeps): never written in place
        return res
