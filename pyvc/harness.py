"""Harness helpers: build user SDEs, ForwardSDE wrappers, Brownian stubs and solver objects by
executing the *real* constructors of /repo inside the interpreter."""
from fractions import Fraction

import numpy as np

from . import interp as I
from .poly import Poly
from . import poly as polymod
from .tensor import XT, TorchSize, FLOAT64
from .values import Unsupported

M_SDEINT = 'torchsde._core.sdeint'
M_BASE_SDE = 'torchsde._core.base_sde'
M_METHODS = 'torchsde._core.methods'
M_SETTINGS = 'torchsde.settings'


def user_class(name='UserSDE', bases=()):
    return I.ClassVal(name, list(bases), {}, None, 'harness.' + name)


def make_user_sde(noise_type, sde_type, methods, cls=None, extra=None):
    obj = I.ObjVal(cls or user_class(), label='user_sde')
    obj.fields['noise_type'] = noise_type
    obj.fields['sde_type'] = sde_type
    obj.fields.update(methods)
    if extra:
        obj.fields.update(extra)
    return obj


def forward_sde(E, cx, user, **kw):
    cls = E.module(M_BASE_SDE).globals['ForwardSDE']
    return E.instantiate(cls, [user], kw, cx, None)


class BMStub:
    """Brownian motion stub implementing the *contract* of BaseBrownian.__call__:
    bm(ta, tb, return_U, return_A) returns (W[, U][, A]) of the interval; the values are supplied by
    the harness as a function of (ta, tb)."""

    def __init__(self, shape, levy, fn):
        self.shape_ = TorchSize(shape)
        self.levy = levy
        self.fn = fn
        self.queries = []

    def __pyvc_call__(self, engine, args, kwargs, cx, lineno):
        ta = args[0]
        tb = args[1] if len(args) > 1 else kwargs.get('tb')
        return_U = kwargs.get('return_U', args[2] if len(args) > 2 else False)
        return_A = kwargs.get('return_A', args[3] if len(args) > 3 else False)
        self.queries.append((ta, tb, return_U, return_A))
        W, U, A = self.fn(ta, tb)
        if return_U:
            if return_A:
                return (W, U, A)
            return (W, U)
        if return_A:
            return (W, A)
        return W

    def __pyvc_getattr__(self, engine, name, cx, lineno):
        if name == 'shape':
            return self.shape_
        if name == 'levy_area_approximation':
            return self.levy
        if name == 'dtype':
            return FLOAT64
        raise I.PyExc('AttributeError', f'bm stub has no {name}', lineno)


def make_solver(E, cx, method, sde, bm, options=None, dt=Fraction(1, 10), adaptive=False,
                rtol=Fraction(1, 100000), atol=Fraction(1, 10000), dt_min=Fraction(1, 100000)):
    sel = E.module(M_METHODS).globals['select']
    cls = E.call(sel, [], {'method': method, 'sde_type': E.get_attr(sde, 'sde_type', cx, None)}, cx, None)
    return E.instantiate(cls, [], dict(sde=sde, bm=bm, dt=dt, adaptive=adaptive, rtol=rtol, atol=atol,
                                       dt_min=dt_min, options=dict(options or {})), cx, None)


def sym_array(prefix, shape):
    a = np.empty(shape, dtype=object)
    for idx in np.ndindex(*shape):
        a[idx] = Poly.var(prefix + ''.join(f'_{i}' for i in idx))
    return a
