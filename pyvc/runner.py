"""Check driver: ./check <property> [--tier quick|thorough] [--replay file]

Exit codes: 0 all obligations discharged (KNOWN-FINDING lines allowed); 1 VIOLATION;
2 undecided (an obligation neither discharged nor refuted); 3 checker error.
"""
import argparse
import importlib
import json
import multiprocessing as mp
import os
import re
import sys
import time
import traceback

ROOT = os.path.dirname(os.path.dirname(os.path.abspath(__file__)))


def _run_job(args):
    modname, jobname, tier, seed, patches = args
    t0 = time.time()
    try:
        mod = importlib.import_module(modname)
        job = {j.name: j for j in mod.jobs(tier)}[jobname]
        res = job.run(tier=tier, seed=seed, patches=patches)
        res['job'] = jobname
        res['wall_s'] = round(time.time() - t0, 3)
        return res
    except Exception as e:  # checker error
        from pyvc.values import Unsupported
        from pyvc.interp import PyExc
        if isinstance(e, PyExc):
            # the code under contract raised a Python exception on an input that satisfies the harness preconditions and nothing caught it:
            # that is a failed no-raise obligation of the job, not a failure of the checker
            pid = modname.rsplit('.', 1)[-1]
            ob = {'name': f'{pid}/{jobname}/no-raise.{e.cls}', 'kind': 'no-raise', 'status': 'refuted', 'backend': 'pyvc-exec', 'seconds': 0.0,
                  'model': {'raised': f'{e.cls}: {e.msg}', 'line': getattr(e, 'lineno', None)},
                  'note': 'uncaught exception from the executed repository code on an input admitted by the harness', 'line': getattr(e, 'lineno', None)}
            return {'job': jobname, 'obligations': [ob], 'functions': [], 'wall_s': round(time.time() - t0, 3)}
        return {'job': jobname, 'error': f'{type(e).__name__}: {e}', 'traceback': traceback.format_exc(),
                'unsupported': isinstance(e, Unsupported), 'wall_s': round(time.time() - t0, 3),
                'obligations': [], 'functions': []}


def load_known():
    known, fixed = [], []
    path = os.path.join(ROOT, 'known_findings.txt')
    if os.path.exists(path):
        for line in open(path):
            line = line.strip()
            if not line or line.startswith('#'):
                continue
            m = re.match(r'known: property=(\S+) key=(\S+) (?:sig=(\S+) )?(.*)', line)
            if m:
                known.append({'property': m.group(1), 'key': m.group(2), 'sigs': set(m.group(3).split(',')) if m.group(3) else None, 'what': m.group(4)})
            m = re.match(r'fixed: property=(\S+) (\S+) (.*)', line)
            if m:
                fixed.append({'property': m.group(1), 'commit': m.group(2), 'what': m.group(3)})
    return known, fixed


def replay(mod, modname, pid, path, tier, seed, njobs):
    """./check <property> --replay <file>: re-decide the obligation recorded in a replay file on the current tree (and re-run its native
    replay).  Exit 1 + VIOLATION line when it still fails, 0 when it is discharged now, 2 when undecided, 3 when it is no longer generated."""
    try:
        rec = json.load(open(path))
    except Exception as e:
        print(f'CHECKER-ERROR property={pid} cannot read replay file {path}: {e}')
        return 3
    name = rec.get('obligation')
    rtier = rec.get('tier') if rec.get('tier') in ('quick', 'thorough') else tier
    jobs = mod.jobs(rtier)
    work = [(modname, j.name, rtier, seed, None) for j in jobs]
    ctx = mp.get_context('fork')
    with ctx.Pool(max(1, min(njobs, len(work))), maxtasksperchild=1) as pool:
        results = pool.map(_run_job, work, chunksize=1)
    hits = [o for r in results for o in r['obligations'] if o['name'] == name]
    if not hits:
        print(f'REPLAY property={pid} obligation={name}: not generated on the current tree (checker error or renamed obligation)')
        return 3
    st = 'refuted' if any(o['status'] == 'refuted' for o in hits) else ('discharged' if all(o['status'] == 'discharged' for o in hits) else 'unknown')
    if st == 'refuted':
        o = next(o for o in hits if o['status'] == 'refuted')
        native = None
        if hasattr(mod, 'native_replay'):
            try:
                native = mod.native_replay(o)
            except Exception as e:
                native = {'reproduced': False, 'error': f'{type(e).__name__}: {e}'}
        print(f'REPLAY property={pid} obligation={name}: still refuted; model={json.dumps(o.get("model"), default=str)[:300]}; native={json.dumps(native, default=str)[:300]}')
        tail = '' if (native and native.get('reproduced')) else ' no-failing-input-found'
        print(f'VIOLATION property={pid} replay={path} obligation={name}{tail}')
        return 1
    print(f'REPLAY property={pid} obligation={name}: {st} on the current tree')
    return 0 if st == 'discharged' else 2


def safe(name):
    return re.sub(r'[^A-Za-z0-9_.\-\[\]]+', '_', name)[:150]


def main(argv=None):
    ap = argparse.ArgumentParser()
    ap.add_argument('property')
    ap.add_argument('--tier', default=os.environ.get('VERIF_TIER', 'quick'))
    ap.add_argument('--replay')
    ap.add_argument('--jobs', type=int, default=int(os.environ.get('PYVC_JOBS', '16')))
    ap.add_argument('--only', help='run only jobs whose name contains this substring')
    ap.add_argument('--no-canaries', action='store_true')
    args = ap.parse_args(argv)
    pid = args.property
    tier = args.tier if args.tier in ('quick', 'thorough') else 'quick'
    seed = int(os.environ.get('VERIF_SEED', '0') or 0)
    sys.path.insert(0, ROOT)
    t_start = time.time()
    modname = f'props.{pid}'
    try:
        mod = importlib.import_module(modname)
    except Exception:
        traceback.print_exc()
        print(f'CHECKER-ERROR property={pid} cannot import {modname}')
        return 3
    if args.replay:
        return replay(mod, modname, pid, args.replay, tier, seed, args.jobs)

    jobs = mod.jobs(tier)
    if args.only:
        jobs = [j for j in jobs if args.only in j.name]
    work = [(modname, j.name, tier, seed, None) for j in jobs]
    canaries = [] if args.no_canaries else list(getattr(mod, 'canaries', lambda tier: [])(tier))
    for c in canaries:
        work.append((modname, c['job'], tier, seed, {'canary': c['name'], 'patches': c['patches']}))
    nproc = max(1, min(args.jobs, len(work)))
    ctx = mp.get_context('fork')
    with ctx.Pool(nproc, maxtasksperchild=1) as pool:
        results = pool.map(_run_job, work, chunksize=1)
    main_results = results[:len(jobs)]
    canary_results = results[len(jobs):]

    known, fixed = load_known()
    known_keys = {k['key']: k for k in known if k['property'] == pid}

    errors = [r for r in main_results if r.get('error')]
    all_obs = [o for r in main_results for o in r['obligations']]
    bounded_obs = [o for o in all_obs if o.get('bounded')]
    obligations = [o for o in all_obs if not o.get('bounded')]
    refuted = [o for o in all_obs if o['status'] == 'refuted']
    unknown = [o for o in all_obs if o['status'] not in ('discharged', 'refuted')]
    discharged = [o for o in obligations if o['status'] == 'discharged']

    violations, known_hits = [], []
    for o in refuted:
        key = o.get('finding_key') or o['name']
        # a listed finding suppresses exactly the failure it describes: same obligation family AND, where the entry carries
        # signatures, the same failing residual; a different failure of the same obligation is reported
        if key in known_keys and (known_keys[key].get('sigs') is None or o.get('finding_sig') in known_keys[key]['sigs']):
            known_hits.append((o, known_keys[key]))
        else:
            violations.append(o)

    # canaries: every mutant of the extracted source must be refuted by at least one obligation
    canary_report = []
    canary_fail = []
    for c, r in zip(canaries, canary_results):
        if r.get('error') and not r.get('skipped'):
            # a mutant that makes the checker error out is also "noticed", but we demand a refutation
            st = 'error: ' + r['error']
            canary_fail.append((c, st))
        elif r.get('skipped'):
            st = 'skipped: ' + r['skipped']
        else:
            ref = [o['name'] for o in r['obligations'] if o['status'] == 'refuted']
            st = f'refuted {len(ref)} obligation(s), e.g. {ref[0]}' if ref else 'NOT refuted'
            if not ref:
                canary_fail.append((c, st))
        canary_report.append({'canary': c['name'], 'job': c['job'], 'result': st})

    # replay files for violations
    out_root = os.environ.get('PYVC_OUT', ROOT)      # tools (seed / mutation runs) redirect evidence and replays away from /verif
    rep_dir = os.path.join(out_root, 'replays', pid)
    lines = []
    seen_v = set()
    uniq = []
    for o in violations:
        if o['name'] not in seen_v:
            seen_v.add(o['name'])
            uniq.append(o)
    for o in uniq:
        os.makedirs(rep_dir, exist_ok=True)
        path = os.path.join(rep_dir, safe(o['name']) + '.json')
        rec = {'property': pid, 'obligation': o['name'], 'kind': o['kind'], 'backend': o.get('backend'),
               'model': o.get('model'), 'note': o.get('note'), 'line': o.get('line'),
               'tier': tier}
        native = None
        if hasattr(mod, 'native_replay') and not os.environ.get('PYVC_NO_NATIVE'):
            try:
                native = mod.native_replay(o)
            except Exception as e:  # replay machinery failure is not a verdict
                native = {'reproduced': False, 'error': f'{type(e).__name__}: {e}'}
        rec['native_replay'] = native
        with open(path, 'w') as fh:
            json.dump(rec, fh, indent=1, default=str)
        tail = '' if (native and native.get('reproduced')) else ' no-failing-input-found'
        lines.append(f'VIOLATION property={pid} replay={path} obligation={o["name"]}{tail}')
        o['replay'] = path

    for o, k in known_hits:
        print(f'KNOWN-FINDING: property={pid} {k["what"]} [obligation {o["name"]}]')
    # a known finding that no longer fails is simply not reported (it may have been fixed)

    functions = []
    seen = set()
    for r in main_results:
        for f in r.get('functions', []):
            if f['function'] not in seen:
                seen.add(f['function'])
                functions.append(f)
    backends = {}
    for o in obligations:
        backends[o.get('backend') or '?'] = backends.get(o.get('backend') or '?', 0) + 1
    solver_s = sum(o.get('seconds', 0) for o in obligations)
    assumptions = []
    for r in main_results:
        for a in r.get('assumptions', []):
            if a not in assumptions:
                assumptions.append(a)
    bounded = [b for r in main_results for b in r.get('bounded', [])]
    if bounded_obs:
        groups = {}
        for o in bounded_obs:
            g = groups.setdefault(str(o['bounded']), {'bound': str(o['bounded']), 'checks': 0, 'passed': 0})
            g['checks'] += 1
            g['passed'] += o['status'] == 'discharged'
        bounded += [dict(what='bounded stand-in obligations (NOT counted in obligations/discharged)', **g) for g in groups.values()]
    samples = []
    for r in main_results:
        for o in r['obligations'][:2]:
            samples.append({k: o[k] for k in ('name', 'kind', 'status', 'backend') if k in o} |
                           ({'smt2': o['smt2']} if 'smt2' in o else {}) | ({'statement': o['statement']} if 'statement' in o else {}))
    samples = samples[:12]

    evidence = {
        'property_id': pid, 'tier': tier, 'seed': seed, 'level': getattr(mod, 'LEVEL', 'proof'),
        'coverage': {
            # `obligations` counts the obligations claimed proved on this tree; obligations that fail and are listed in
            # known_findings.txt are reported separately (KNOWN-FINDING lines) and are not part of the claim
            'obligations': len(obligations) - len([1 for o, _ in known_hits if not o.get('bounded')]),
            'discharged': len(discharged),
            'obligations_generated': len(obligations),
            'refuted_known_findings': len(known_hits), 'known_finding_obligations': [o['name'] for o, _ in known_hits],
            'refuted_violations': len(violations),
            'undecided': len(unknown),
            'checker_cmd': f'./check {pid} --tier {tier}',
            'trusted_base': getattr(mod, 'TRUSTED', []),
            'functions_under_contract': functions,
            'inlined_functions': sorted({f for r in main_results for f in r.get('inlined', [])}),
            'contract_call_sites': sorted({f for r in main_results for f in r.get('contract_calls', [])}),
            'backends': backends, 'solver_seconds': round(solver_s, 3),
            'paths_explored': sum(r.get('paths', 0) for r in main_results),
            'jobs': [{'job': r['job'], 'obligations': len(r['obligations']), 'wall_s': r['wall_s'],
                      **({'error': r['error']} if r.get('error') else {})} for r in main_results],
            'canaries': canary_report,
            'bounded_stand_ins': bounded,
            'extraction_drops': getattr(mod, 'DROPS', 'docstrings, comments, type annotations, warnings.warn calls, f-string contents'),
            'not_decided_clauses': getattr(mod, 'NOT_DECIDED', []),
            'job_notes': sorted({n for r in main_results for n in r.get('notes', [])}),
            'extraction_normalisation': 'locals of a function are alpha-renamed back to the names pinned in contracts/pinned_locals.json when they '
                                        'differ from them only by name (pyvc/alpha.py); renamed in this run: '
                                        + (json.dumps(sorted({json.dumps(x) for r in main_results for x in r.get('renamed_locals', [])})) or '[]'),
            'samples': samples,
            'explanation': getattr(mod, 'EXPLANATION', ''),
        },
        'assumptions': assumptions + getattr(mod, 'ASSUMPTIONS', []),
        'wall_s': round(time.time() - t_start, 3),
        'violations': len(violations),
    }
    if bounded:
        evidence['coverage']['bounded_note'] = 'bounded stand-ins are NOT included in obligations/discharged'
    if bounded_obs:
        evidence['coverage']['bounded_checks'] = len(bounded_obs)
        evidence['coverage']['bounded_checks_passed'] = len([o for o in bounded_obs if o['status'] == 'discharged'])
    if evidence['level'] != 'proof':
        # generic keys for non-proof levels: every bounded check is one evaluated case
        evidence['coverage']['evaluations'] = len(all_obs)
        evidence['coverage']['distinct_nontrivial'] = len({o['name'] for o in all_obs})
        evidence['coverage']['rule'] = 'one case per named obligation of a bounded symbolic instance (generic in all symbolic inputs); distinct = distinct obligation names'
    os.makedirs(os.path.join(out_root, 'evidence'), exist_ok=True)
    with open(os.path.join(out_root, 'evidence', f'{pid}.json'), 'w') as fh:
        json.dump(evidence, fh, indent=1, default=str)

    print(f'{pid} [{tier}]: {len(obligations)} obligations, {len(discharged)} discharged, ' + (f'{len(bounded_obs)} bounded checks, ' if bounded_obs else '') +
          f'{len(known_hits)} known findings, {len(violations)} violations, {len(unknown)} undecided, '
          f'{len(errors)} job errors; canaries {len(canaries) - len(canary_fail)}/{len(canaries)}; '
          f'{evidence["wall_s"]}s')
    if lines:
        for ln in lines:
            print(ln)
        return 1
    if errors:
        for r in errors:
            print(f'CHECKER-ERROR property={pid} job={r["job"]}: {r["error"]}')
            if os.environ.get('PYVC_DEBUG'):
                print(r['traceback'])
        return 3
    if len(obligations) == 0 and not (getattr(mod, 'LEVEL', 'proof') != 'proof' and bounded_obs):
        print(f'CHECKER-ERROR property={pid}: zero obligations generated')
        return 3
    if canary_fail:
        for c, st in canary_fail:
            print(f'CHECKER-ERROR property={pid}: canary mutant {c["name"]} ({c["job"]}) {st}')
        return 3
    if unknown:
        for o in unknown[:10]:
            print(f'UNDECIDED property={pid} obligation={o["name"]} ({o.get("note", "")})')
        return 2
    return 0


if __name__ == '__main__':
    sys.exit(main())
