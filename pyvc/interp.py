"""pyvc interpreter: forward symbolic execution of real Python source (ast).

One `Engine` per verification job; one `Ctx` per explored path.  Paths are
explored by re-execution under a decision prefix (no interpreter state is ever
copied).  Obligations are discharged as they are generated and then assumed.
"""
import ast
import itertools
import operator
import time
from fractions import Fraction

import z3

from .loader import Repo
from .values import (SV, SB, OptVal, SymRef, Opaque, Unsupported, SymbolicBoolUsed, to_z3, b2z, is_num, to_real)

# --------------------------------------------------------------------------
# control-flow signals
# --------------------------------------------------------------------------


class PyExc(Exception):
    """A Python exception raised by the interpreted program."""

    def __init__(self, cls, msg='', lineno=None):
        super().__init__(cls, msg)
        self.cls = cls
        self.msg = msg
        self.lineno = lineno


class _Return(Exception):
    def __init__(self, value):
        self.value = value


class _Break(Exception):
    pass


class _Continue(Exception):
    pass


class PathEnd(Exception):
    """The current path stops here (infeasible, or an inductive-step path is complete)."""


EXC_PARENTS = {
    'KeyError': 'LookupError', 'IndexError': 'LookupError', 'LookupError': 'Exception',
    'AttributeError': 'Exception', 'ValueError': 'Exception', 'RuntimeError': 'Exception',
    'NotImplementedError': 'RuntimeError', 'RecursionError': 'RuntimeError', 'AssertionError': 'Exception',
    'ZeroDivisionError': 'ArithmeticError', 'ArithmeticError': 'Exception', 'TypeError': 'Exception',
    'StopIteration': 'Exception', 'Exception': 'BaseException', 'TailCall': 'BaseException',
}


def exc_isinstance(cls, target):
    while cls is not None:
        if cls == target:
            return True
        cls = EXC_PARENTS.get(cls)
    return False


# --------------------------------------------------------------------------
# runtime values of the interpreter
# --------------------------------------------------------------------------

class ModuleEnv:
    def __init__(self, name, info):
        self.name = name
        self.info = info
        self.globals = {}
        self.loaded = False

    def __repr__(self):
        return f'<module {self.name}>'


class ExternModule:
    """A module outside /repo (torch, math, numpy, ...): only registered models are callable."""

    def __init__(self, name, attrs=None):
        self.name = name
        self.attrs = attrs if attrs is not None else {}

    def __repr__(self):
        return f'<extern {self.name}>'


class ExternFunc:
    def __init__(self, name, fn, needs_cx=False):
        self.name = name
        self.fn = fn
        self.needs_cx = needs_cx

    def __repr__(self):
        return f'<extern fn {self.name}>'


class ExcClass:
    def __init__(self, name):
        self.name = name

    def __repr__(self):
        return f'<exc {self.name}>'


class FuncVal:
    def __init__(self, node, module, closure, qualname, defaults=None, kwdefaults=None, owner=None):
        self.node = node
        self.module = module
        self.closure = closure
        self.qualname = qualname
        self.defaults = defaults or []
        self.kwdefaults = kwdefaults or {}
        self.owner = owner  # ClassVal for methods
        self.is_generator = any(isinstance(n, (ast.Yield, ast.YieldFrom)) for n in ast.walk(node)) \
            if not isinstance(node, ast.Lambda) else False

    def __repr__(self):
        return f'<function {self.qualname}>'


class BoundMethod:
    def __init__(self, obj, func):
        self.obj = obj
        self.func = func

    def __repr__(self):
        return f'<bound {self.func!r} of {self.obj!r}>'


class PropVal:
    def __init__(self, fget):
        self.fget = fget


class StaticVal:
    def __init__(self, func):
        self.func = func


class ClassVal:
    def __init__(self, name, bases, attrs, module, qualname, metaclass=None, slots=None):
        self.name = name
        self.bases = bases
        self.attrs = attrs
        self.module = module
        self.qualname = qualname
        self.metaclass = metaclass
        self.mro = self._mro()

    def _mro(self):
        seqs = [list(b.mro) for b in self.bases if isinstance(b, ClassVal)] + \
               [[b for b in self.bases if isinstance(b, ClassVal)]]
        res = [self]
        while True:
            seqs = [s for s in seqs if s]
            if not seqs:
                return res
            for s in seqs:
                cand = s[0]
                if not any(cand in t[1:] for t in seqs):
                    break
            else:
                raise Unsupported('inconsistent MRO')
            res.append(cand)
            for s in seqs:
                if s[0] is cand:
                    del s[0]

    def lookup(self, name, after=None):
        mro = self.mro
        if after is not None:
            mro = mro[mro.index(after) + 1:]
        for c in mro:
            if name in c.attrs:
                return c.attrs[name], c
        return None, None

    def issub(self, other):
        return other in self.mro

    def __repr__(self):
        return f'<class {self.qualname}>'


class ObjVal:
    """Object with concrete identity; fields may hold symbolic values."""

    def __init__(self, cls, fields=None, label=None):
        self.cls = cls
        self.fields = fields if fields is not None else {}
        self.label = label

    def __repr__(self):
        return f'<{self.cls.name} {self.label or hex(id(self))}>'


class SuperVal:
    def __init__(self, cls, obj):
        self.cls = cls
        self.obj = obj


class ExternBase:
    """Stand-in for an external base class (nn.Module, abc.ABC, dict ...)."""

    def __init__(self, name):
        self.name = name

    def __repr__(self):
        return f'<extern class {self.name}>'


class Frame:
    def __init__(self, func, module, locals_, parent=None):
        self.func = func
        self.module = module
        self.locals = locals_
        self.parent = parent  # closure parent frame (lexical)
        self.loop_ordinal = 0


class TailCallVal:
    def __init__(self, value):
        self.value = value


# --------------------------------------------------------------------------
# obligations
# --------------------------------------------------------------------------

class Obligation:
    def __init__(self, name, kind, hyps, goal, lineno=None, path=None):
        self.name = name
        self.kind = kind
        self.hyps = hyps
        self.goal = goal
        self.lineno = lineno
        self.path = path
        self.status = None  # 'discharged' | 'refuted' | 'unknown'
        self.backend = None
        self.model = None
        self.seconds = 0.0
        self.note = ''

    def to_json(self):
        d = {'name': self.name, 'kind': self.kind, 'status': self.status, 'backend': self.backend,
             'seconds': round(self.seconds, 4)}
        if self.lineno:
            d['line'] = self.lineno
        if self.model:
            d['model'] = self.model
        if self.note:
            d['note'] = self.note
        return d


# --------------------------------------------------------------------------
# per-path context
# --------------------------------------------------------------------------

class Ctx:
    def __init__(self, engine, decisions):
        self.engine = engine
        engine.current_cx = self
        self.decisions = list(decisions)
        self.taken = []
        self.pc = []           # list of z3 Bool (assumptions + branch conditions)
        self.solver = z3.Solver()
        self.solver.set('timeout', engine.feas_timeout_ms)
        for ax in engine.global_axioms:
            if not _has_quantifier(ax):
                self.solver.add(ax)
        self.counter = itertools.count()
        self.obligations = []
        self.state = {}        # free-form per-path state (grad mode, ghost logs, heap ...)
        self.depth = 0
        self.trace = []

    # ---- fresh symbols
    def fresh(self, base, sort=None):
        n = next(self.counter)
        name = f'{base}!{n}'
        sort = z3.RealSort() if sort is None else sort
        return z3.Const(name, sort)

    def real(self, base):
        return SV(self.fresh(base, z3.RealSort()))

    def int(self, base):
        return SV(self.fresh(base, z3.IntSort()))

    def bool(self, base):
        return SB(self.fresh(base, z3.BoolSort()))

    # ---- assumptions
    def assume(self, f):
        f = b2z(f)
        self.pc.append(f)
        # path feasibility is decided on the quantifier-free part of the path condition only (an over-approximation:
        # a spuriously feasible path merely produces obligations with inconsistent hypotheses)
        if not _has_quantifier(f) and not _mentions_root(f):
            self.solver.add(f)

    def feasible(self, extra=None):
        self.solver.push()
        if extra is not None:
            self.solver.add(extra)
        r = self.solver.check()
        self.solver.pop()
        return r != z3.unsat

    # ---- branching
    def branch(self, cond, lineno=None):
        """Decide a boolean. Concrete -> itself; symbolic -> explore both feasible sides."""
        if isinstance(cond, bool):
            return cond
        if cond is None:
            return False
        if isinstance(cond, SB):
            e = z3.simplify(cond.e)
            if z3.is_true(e):
                return True
            if z3.is_false(e):
                return False
            k = len(self.taken)
            if k < len(self.decisions):
                d = self.decisions[k]
                self.taken.append(d)
                self.assume(e if d else z3.Not(e))
                return d
            can_t = self.feasible(e)
            can_f = self.feasible(z3.Not(e))
            if can_t and can_f:
                self.engine.pending.append(self.taken + [False])
                d = True
            elif can_t:
                d = True
            elif can_f:
                d = False
            else:
                raise PathEnd('infeasible')
            self.taken.append(d)
            self.assume(e if d else z3.Not(e))
            return d
        if isinstance(cond, OptVal):
            # truthiness of Optional[number]: not None and != 0
            return self.branch(SB(z3.And(z3.Not(cond.isnone), to_z3(cond.val) != 0)), lineno)
        if isinstance(cond, SymRef):
            return self.branch(SB(cond.e != 0), lineno)
        if isinstance(cond, SV):
            return self.branch(SB(cond.e != 0), lineno)
        return self.engine.truthy(cond)

    def choice(self, n, label=''):
        """Nondeterministic choice among n alternatives (used for loop cut points)."""
        k = len(self.taken)
        if k < len(self.decisions):
            d = self.decisions[k]
        else:
            for alt in range(n - 1, 0, -1):
                self.engine.pending.append(self.taken + [alt])
            d = 0
        self.taken.append(d)
        return d

    # ---- obligations
    def oblige(self, name, goal, kind='post', lineno=None, assume_after=True, pivots=None, ground_only=False):
        goal = b2z(goal)
        if self.engine.skip_obligations:
            # bounded-execution jobs: obligations of the executed code are proved elsewhere (their own contracts); here they
            # are only assumed so that execution can proceed
            g = z3.simplify(goal)
            if not z3.is_true(g):     # concrete heaps: most guards simplify to true; do not grow the path condition with them
                self.assume(g)
            return None
        plain_goal = goal
        hook = self.state.get('oblige_hook')
        if hook is not None and not ground_only:
            r = hook(name, kind, lineno)
            if r:
                hints, ground_only = r
                if hints:
                    goal = z3.Implies(z3.And(*hints), goal)
        hyps = list(self.pc)
        if ground_only:
            # hypothesis slicing: keep only quantifier-free hypotheses (dropping hypotheses is sound); the goal carries
            # the explicit instances of the quantified ones that the proof needs
            hyps = [h for h in hyps if not _has_quantifier(h)]
        ob = Obligation(name, kind, hyps, goal, lineno, tuple(self.taken))
        if pivots and z3.is_quantifier(goal) and goal.is_forall():
            self._discharge_split(ob, goal, pivots)
        else:
            self.engine.discharge(ob)
        if ob.status == 'refuted' and self.state.get('weak_invariant'):
            ob.status = 'unknown'
            ob.note = 'undecided, not refuted: ' + self.state['weak_invariant']
        self.obligations.append(ob)
        if assume_after:
            self.assume(plain_goal)
        return ob


def _has_quantifier(e):
    stack = [e]
    seen = set()
    while stack:
        x = stack.pop()
        if x.get_id() in seen:
            continue
        seen.add(x.get_id())
        if z3.is_quantifier(x):
            return True
        if z3.is_app(x):
            stack.extend(x.children())
    return False


def _mentions_root(e):
    """Defining constraints of square roots (s >= 0 and s*s == x) are nonlinear and irrelevant for path feasibility."""
    stack = [e]
    seen = set()
    while stack:
        x = stack.pop()
        if x.get_id() in seen:
            continue
        seen.add(x.get_id())
        if z3.is_const(x) and x.decl().kind() == z3.Z3_OP_UNINTERPRETED:
            nm = str(x.decl().name())
            if nm.startswith('sqrt!') or nm.startswith('tsqrt!'):
                return True
        elif z3.is_app(x):
            k = x.decl().kind()
            if k == z3.Z3_OP_MUL and sum(1 for c in x.children() if not (z3.is_rational_value(c) or z3.is_int_value(c))) >= 2:
                return True     # nonlinear product: irrelevant for (and very costly in) path-feasibility queries
            if k in (z3.Z3_OP_DIV, z3.Z3_OP_POWER) and not z3.is_rational_value(x.arg(1)) and not z3.is_int_value(x.arg(1)):
                return True
            stack.extend(x.children())
    return False


def _discharge_split(self, ob, goal, pivots):
    """forall x. body: skolemise x and discharge once per case x == pivot_k plus the remaining case
    (case split at structure boundaries; the conjunction of the cases is the original obligation)."""
    nv = goal.num_vars()
    sks = [z3.Const(f'sk!{next(self.counter)}', goal.var_sort(i)) for i in range(nv)]
    body = z3.substitute_vars(goal.body(), *reversed(sks))
    x = sks[0]
    cases = [x == p for p in pivots] + [z3.And(*[x != p for p in pivots])]
    t0 = time.time()
    worst = 'discharged'
    backends = set()
    for c in cases:
        sub = Obligation(ob.name, ob.kind, ob.hyps + [c], body, ob.lineno, ob.path)
        self.engine.discharge(sub)
        self.engine.all_obligations.pop()
        backends.add(sub.backend)
        if sub.status == 'refuted':
            worst, ob.model = 'refuted', sub.model
            break
        if sub.status != 'discharged':
            worst, ob.note = 'unknown', sub.note
    ob.status = worst
    ob.backend = '+'.join(sorted(b for b in backends if b)) + f' (case split x{len(cases)})'
    ob.seconds = time.time() - t0
    self.engine.all_obligations.append(ob)


Ctx._discharge_split = _discharge_split


# --------------------------------------------------------------------------
# the engine
# --------------------------------------------------------------------------

_BINOPS = {
    ast.Add: operator.add, ast.Sub: operator.sub, ast.Mult: operator.mul, ast.Div: operator.truediv,
    ast.Pow: operator.pow, ast.FloorDiv: operator.floordiv, ast.Mod: operator.mod, ast.MatMult: operator.matmul,
}
_CMPOPS = {
    ast.Lt: operator.lt, ast.LtE: operator.le, ast.Gt: operator.gt, ast.GtE: operator.ge,
    ast.Eq: operator.eq, ast.NotEq: operator.ne,
}


class Engine:
    def __init__(self, repo=None, timeout_ms=30000, feas_timeout_ms=2000):
        self.repo = repo or Repo()
        self.modules = {}
        self.externs = {}
        self.contracts = {}       # qualname -> contract object
        self.loops = {}           # (qualname, ordinal) -> loop spec
        self.inline_ok = None     # None = inline anything not under contract
        self.global_axioms = []
        self.pending = []
        self.timeout_ms = timeout_ms
        self.feas_timeout_ms = feas_timeout_ms
        self.inlined = set()
        self.contract_calls = set()
        self.all_obligations = []
        self.paths = 0
        self.solver_seconds = 0.0
        self.algebraic = {}
        self.hooks = {}           # misc extension points: 'getattr', 'setattr', 'binop', 'call', 'truthy', 'pow'
        self.borrow_args = None   # predicate on qualnames: functions whose tensor arguments are owned by the caller (see tensor.install)
        self.borrow_enter = self.borrow_exit = None
        self.frame_violations = []   # ownership violations observed while executing (reported by props.base.Report.result)
        self.max_depth = 40
        self._ob_cache = {}
        self.skip_obligations = False
        self.finite_scope = None   # dict(K=..., funs=[(f, body)...]) enables the exact finite-scope refuter for heap VCs
        self.verifying = None
        self.dropped = {'docstrings': 0, 'warnings.warn': 0, 'fstrings': 0}
        from . import builtins_model
        builtins_model.install(self)

    # ------------------------------------------------------------ discharge
    def discharge(self, ob):
        # obligations re-generated on re-executed path prefixes are identical (hash-consed ASTs): reuse the verdict
        key = (ob.goal.get_id(), tuple(h.get_id() for h in ob.hyps))
        hit = self._ob_cache.get(key)
        if hit is not None:
            ob.status, ob.backend, ob.model, ob.note = hit[0].status, hit[0].backend, hit[0].model, hit[0].note
            ob.seconds = 0.0
            self.all_obligations.append(ob)
            return
        self._ob_cache[key] = (ob, ob.goal, list(ob.hyps))   # keeps the ASTs alive so that ids stay unique
        t0 = time.time()
        r = None
        s = None
        # slow quantified queries are the unstable ones: several short attempts with different seeds
        # beat one long attempt; `unknown` after all of them goes to the second-opinion back ends
        attempts = [(0, self.timeout_ms // 6), (7, self.timeout_ms // 3), (23, self.timeout_ms // 2)]
        for seed, tmo in attempts:
            s = z3.Solver()
            s.set('timeout', max(int(tmo), 1000))
            if seed:
                s.set('random_seed', seed)
            for ax in self.global_axioms:
                s.add(ax)
            for h in ob.hyps:
                s.add(h)
            s.add(z3.Not(ob.goal))
            r = s.check()
            if r != z3.unknown:
                break
        ob.backend = 'z3-' + z3.get_version_string()
        if r == z3.unsat:
            ob.status = 'discharged'
        elif r == z3.sat:
            ob.status = 'refuted'
            m = s.model()
            ob.model = {str(d.name()): str(m[d]) for d in m.decls() if d.arity() == 0}
        else:
            ob.status = 'unknown'
            ob.note = s.reason_unknown()
            self._second_opinion(ob, s)
            if ob.status == 'unknown' and self.finite_scope:
                from . import finite_scope
                for cfg in (self.finite_scope if isinstance(self.finite_scope, list) else [self.finite_scope]):
                    finite_scope.refute(self, ob, cfg)
                    if ob.status != 'unknown':
                        break
        ob.seconds = time.time() - t0
        self.solver_seconds += ob.seconds
        self.all_obligations.append(ob)

    def _second_opinion(self, ob, s):
        """z3 said unknown: try cvc5 and the system z3 4.8.12 on the SMT-LIB text."""
        from . import backends
        res, backend, model = backends.second_opinion(s.to_smt2(), self.timeout_ms // 1000 or 1)
        if res == 'unsat':
            ob.status, ob.backend = 'discharged', backend
        elif res == 'sat':
            ob.status, ob.backend, ob.model = 'refuted', backend, model

    # ------------------------------------------------------------ exploring
    def explore(self, run, label='', deadline=None, keep=True):
        """run(cx) is executed once per path. Returns list of (cx, outcome).  With a deadline (time.time() value) the exploration stops
        when it is reached; the number of unexplored decision prefixes is left in self.truncated (bounded stand-ins only)."""
        import time as _time
        results = []
        self.pending = [[]]
        self.truncated = 0
        while self.pending:
            if deadline is not None and _time.time() > deadline:
                self.truncated = len(self.pending)
                self.pending = []
                break
            dec = self.pending.pop()
            cx = Ctx(self, dec)
            try:
                out = ('return', run(cx))
            except PathEnd as e:
                out = ('end', str(e))
            except PyExc as e:
                out = ('raise', e)
            self.paths += 1
            if keep:
                results.append((cx, out))
            if self.paths > 20000 and deadline is None:
                raise Unsupported('path explosion (>20000 paths)')
        return results

    # ------------------------------------------------------------ modules
    def module(self, name):
        if name in self.modules:
            m = self.modules[name]
        else:
            if name not in self.repo.modules:
                raise KeyError(name)
            m = ModuleEnv(name, self.repo.modules[name])
            self.modules[name] = m
        if not m.loaded:
            m.loaded = True
            self._load_module(m)
        return m

    def _load_module(self, m):
        cx = Ctx(self, [])
        fr = Frame(None, m, m.globals)
        for st in m.info.tree.body:
            if isinstance(st, ast.Expr) and isinstance(st.value, ast.Constant):
                continue
            self.exec_stmt(st, fr, cx)

    def resolve_import(self, modenv, module, level):
        if level == 0:
            return module
        pkg = modenv.name.split('.')
        if not modenv.info.is_pkg:
            pkg = pkg[:-1]
        if level > 1:
            pkg = pkg[:-(level - 1)]
        return '.'.join(pkg + ([module] if module else []))

    def import_module(self, fullname):
        if fullname in self.repo.modules:
            return self.module(fullname)
        root = fullname.split('.')[0]
        if fullname in self.externs:
            return self.externs[fullname]
        if root in self.externs:
            mod = self.externs[root]
            for p in fullname.split('.')[1:]:
                mod = self.get_attr(mod, p, None, None)
            return mod
        ext = ExternModule(fullname)
        self.externs[fullname] = ext
        return ext

    def function(self, qualname):
        """Resolve a repo function/method by qualified name to a FuncVal."""
        parts = qualname.split('.')
        for k in range(len(parts), 0, -1):
            mod = '.'.join(parts[:k])
            if mod in self.repo.modules:
                v = self.module(mod)
                for p in parts[k:]:
                    if isinstance(v, ModuleEnv):
                        v = v.globals[p]
                    elif isinstance(v, ClassVal):
                        v = v.attrs[p]
                    else:
                        raise KeyError(qualname)
                return v
        raise KeyError(qualname)

    # ------------------------------------------------------------ truthiness
    def truthy(self, v):
        if isinstance(v, (bool, int, Fraction, str, tuple, list, dict, set, frozenset)) or v is None:
            return bool(v)
        if 'truthy' in self.hooks:
            r = self.hooks['truthy'](v)
            if r is not NotImplemented:
                return r
        if isinstance(v, (ObjVal, FuncVal, BoundMethod, ClassVal)):
            return True
        if hasattr(v, '__pyvc_len__'):
            return v.__pyvc_len__() != 0
        raise Unsupported(f'truthiness of {v!r}')

    # ------------------------------------------------------------ statements
    def exec_block(self, stmts, fr, cx):
        for st in stmts:
            self.exec_stmt(st, fr, cx)

    def exec_stmt(self, st, fr, cx):
        m = getattr(self, 'st_' + type(st).__name__, None)
        if m is None:
            raise Unsupported(f'statement {type(st).__name__} at line {st.lineno}')
        return m(st, fr, cx)

    def st_Pass(self, st, fr, cx):
        pass

    def st_Expr(self, st, fr, cx):
        if isinstance(st.value, ast.Constant):
            self.dropped['docstrings'] += 1
            return
        self.eval(st.value, fr, cx)

    def st_Import(self, st, fr, cx):
        for a in st.names:
            mod = self.import_module(a.name)
            if a.asname:
                fr.locals[a.asname] = mod
            else:
                root = a.name.split('.')[0]
                fr.locals[root] = self.import_module(root)

    def st_ImportFrom(self, st, fr, cx):
        base = self.resolve_import(fr.module, st.module, st.level)
        for a in st.names:
            full = base + '.' + a.name
            if full in self.repo.modules:
                val = self.module(full)
            else:
                mod = self.import_module(base)
                val = self.get_attr(mod, a.name, cx, st.lineno)
            fr.locals[a.asname or a.name] = val

    def st_Assign(self, st, fr, cx):
        v = self.eval(st.value, fr, cx)
        for tgt in st.targets:
            self.assign(tgt, v, fr, cx)

    def st_AnnAssign(self, st, fr, cx):
        if st.value is not None:
            self.assign(st.target, self.eval(st.value, fr, cx), fr, cx)

    def st_AugAssign(self, st, fr, cx):
        load = ast.copy_location(_as_load(st.target), st.target)
        cur = self.eval(load, fr, cx)
        rhs = self.eval(st.value, fr, cx)
        if isinstance(cur, list) and isinstance(st.op, ast.Add):
            cur.extend(rhs)  # list += mutates in place
            return
        self.assign(st.target, self.binop(st.op, cur, rhs, cx, st.lineno), fr, cx)

    def st_Delete(self, st, fr, cx):
        for t in st.targets:
            if isinstance(t, ast.Name):
                fr.locals.pop(t.id, None)
            elif isinstance(t, ast.Subscript):
                obj = self.eval(t.value, fr, cx)
                key = self.eval(t.slice, fr, cx)
                self.del_item(obj, key, cx, st.lineno)
            else:
                raise Unsupported(f'del target at line {st.lineno}')

    def st_Return(self, st, fr, cx):
        raise _Return(self.eval(st.value, fr, cx) if st.value is not None else None)

    def st_If(self, st, fr, cx):
        c = self.eval(st.test, fr, cx)
        if cx.branch(c, st.lineno):
            self.exec_block(st.body, fr, cx)
        else:
            self.exec_block(st.orelse, fr, cx)

    def st_Assert(self, st, fr, cx):
        c = self.eval(st.test, fr, cx)
        if not cx.branch(c, st.lineno):
            raise PyExc('AssertionError', '', st.lineno)

    def st_Raise(self, st, fr, cx):
        if st.exc is None:
            raise Unsupported('bare raise')
        v = self.eval(st.exc, fr, cx)
        if isinstance(v, TailCallVal):
            raise _Return(v.value)
        if isinstance(v, ExcClass):
            raise PyExc(v.name, '', st.lineno)
        if isinstance(v, PyExc):
            v.lineno = st.lineno
            raise v
        raise Unsupported(f'raise of {v!r} at line {st.lineno}')

    def st_Try(self, st, fr, cx):
        if st.finalbody:
            raise Unsupported('try/finally')
        try:
            self.exec_block(st.body, fr, cx)
        except PyExc as e:
            for h in st.handlers:
                names = []
                if h.type is None:
                    names = ['BaseException']
                else:
                    t = self.eval(h.type, fr, cx)
                    ts = t if isinstance(t, tuple) else (t,)
                    names = [x.name for x in ts]
                if any(exc_isinstance(e.cls, n) for n in names):
                    if h.name:
                        fr.locals[h.name] = e
                    self.exec_block(h.body, fr, cx)
                    return
            raise
        else:
            self.exec_block(st.orelse, fr, cx)

    def st_With(self, st, fr, cx):
        mgrs = []
        for item in st.items:
            m = self.eval(item.context_expr, fr, cx)
            if not hasattr(m, '__pyvc_enter__'):
                raise Unsupported(f'context manager {m!r} at line {st.lineno}')
            v = m.__pyvc_enter__(cx)
            if item.optional_vars is not None:
                self.assign(item.optional_vars, v, fr, cx)
            mgrs.append(m)
        try:
            self.exec_block(st.body, fr, cx)
        finally:
            for m in reversed(mgrs):
                m.__pyvc_exit__(cx)

    def st_FunctionDef(self, st, fr, cx):
        fr.locals[st.name] = self.make_function(st, fr, cx)

    def make_function(self, node, fr, cx, owner=None, qual=None):
        args = node.args
        defaults = [self.eval(d, fr, cx) for d in args.defaults]
        kwdefaults = {a.arg: self.eval(d, fr, cx) for a, d in zip(args.kwonlyargs, args.kw_defaults) if d is not None}
        if qual is None:
            if fr.func is not None:
                qual = fr.func.qualname + '.' + getattr(node, 'name', '<lambda>')
            else:
                qual = fr.module.name + '.' + getattr(node, 'name', '<lambda>')
        fv = FuncVal(node, fr.module, fr if fr.func is not None else None, qual, defaults, kwdefaults, owner)
        if isinstance(node, ast.FunctionDef):
            for dec in reversed(node.decorator_list):
                d = self.eval(dec, fr, cx)
                fv = self.call(d, [fv], {}, cx, node.lineno)
        return fv

    def st_ClassDef(self, st, fr, cx):
        bases = []
        for b in st.bases:
            bv = self.eval(b, fr, cx)
            bases.append(bv)
        metaclass = None
        for kw in st.keywords:
            if kw.arg == 'metaclass':
                metaclass = self.eval(kw.value, fr, cx)
        qual = fr.module.name + '.' + st.name if fr.func is None else fr.func.qualname + '.' + st.name
        cls = ClassVal(st.name, bases, {}, fr.module, qual, metaclass)
        cfr = Frame(None, fr.module, cls.attrs, parent=fr if fr.func is not None else None)
        cfr.func = None
        for s in st.body:
            if isinstance(s, ast.Expr) and isinstance(s.value, ast.Constant):
                continue
            if isinstance(s, ast.FunctionDef):
                fv = self.make_function(s, _ClassFrame(fr, cls), cx, owner=cls, qual=qual + '.' + s.name)
                if isinstance(fv, FuncVal):
                    fv.owner = cls
                cls.attrs[s.name] = fv
            else:
                self.exec_stmt(s, _ClassBodyFrame(fr, cls), cx)
        fr.locals[st.name] = cls

    # ---- loops
    def st_For(self, st, fr, cx):
        ordinal = self._loop_ordinal(st, fr)
        spec = self.loops.get((fr.func.qualname if fr.func else None, ordinal))
        it = self.eval(st.iter, fr, cx)
        if spec is not None:
            return spec.run_for(self, st, fr, cx, it)
        seq = self.iterate(it, cx, st.lineno)
        for v in seq:
            self.assign(st.target, v, fr, cx)
            try:
                self.exec_block(st.body, fr, cx)
            except _Break:
                break
            except _Continue:
                continue
        else:
            self.exec_block(st.orelse, fr, cx)

    def st_While(self, st, fr, cx):
        ordinal = self._loop_ordinal(st, fr)
        spec = self.loops.get((fr.func.qualname if fr.func else None, ordinal))
        if spec is not None:
            return spec.run_while(self, st, fr, cx)
        n = 0
        while True:
            c = self.eval(st.test, fr, cx)
            if isinstance(c, SB):
                raise Unsupported(f'while loop with symbolic condition and no invariant at line {st.lineno}')
            if not self.truthy(c):
                break
            n += 1
            if n > 10000:
                raise Unsupported('concrete while loop does not terminate in 10000 iterations')
            try:
                self.exec_block(st.body, fr, cx)
            except _Break:
                break
            except _Continue:
                continue

    def _loop_ordinal(self, st, fr):
        """Ordinal of this loop among the loops of the enclosing function, in source order."""
        if fr.func is None:
            return -1
        cache = getattr(fr.func, '_loops', None)
        if cache is None:
            loops = [n for n in ast.walk(fr.func.node) if isinstance(n, (ast.For, ast.While))]
            loops.sort(key=lambda n: (n.lineno, n.col_offset))
            cache = {id(n): i for i, n in enumerate(loops)}
            fr.func._loops = cache
        return cache.get(id(st), -1)

    def st_Break(self, st, fr, cx):
        raise _Break()

    def st_Continue(self, st, fr, cx):
        raise _Continue()

    # ------------------------------------------------------------ assignment
    def assign(self, tgt, v, fr, cx):
        if isinstance(tgt, ast.Name):
            fr.locals[tgt.id] = v
        elif isinstance(tgt, (ast.Tuple, ast.List)):
            vals = list(self.iterate(v, cx, tgt.lineno))
            star = [i for i, e in enumerate(tgt.elts) if isinstance(e, ast.Starred)]
            if star:
                i = star[0]
                after = len(tgt.elts) - i - 1
                if len(vals) < len(tgt.elts) - 1:
                    raise PyExc('ValueError', 'not enough values to unpack', tgt.lineno)
                for e, x in zip(tgt.elts[:i], vals[:i]):
                    self.assign(e, x, fr, cx)
                self.assign(tgt.elts[i].value, vals[i:len(vals) - after], fr, cx)
                for e, x in zip(tgt.elts[i + 1:], vals[len(vals) - after:]):
                    self.assign(e, x, fr, cx)
            else:
                if len(vals) != len(tgt.elts):
                    raise PyExc('ValueError', f'unpack: expected {len(tgt.elts)} got {len(vals)}', tgt.lineno)
                for e, x in zip(tgt.elts, vals):
                    self.assign(e, x, fr, cx)
        elif isinstance(tgt, ast.Attribute):
            obj = self.eval(tgt.value, fr, cx)
            self.set_attr(obj, tgt.attr, v, cx, tgt.lineno)
        elif isinstance(tgt, ast.Subscript):
            obj = self.eval(tgt.value, fr, cx)
            key = self.eval(tgt.slice, fr, cx)
            self.set_item(obj, key, v, cx, tgt.lineno)
        else:
            raise Unsupported(f'assignment target {type(tgt).__name__}')

    def iterate(self, v, cx, lineno=None):
        if isinstance(v, (list, tuple, range, str, dict, set, frozenset)):
            return list(v)
        if hasattr(v, '__pyvc_iter__'):
            return v.__pyvc_iter__(cx)
        if isinstance(v, (zip, map, filter, enumerate)) or hasattr(v, '__next__'):
            return list(v)
        raise Unsupported(f'iteration over {v!r} at line {lineno}')

    # ------------------------------------------------------------ attributes
    def get_attr(self, obj, name, cx, lineno, default=KeyError):
        h = self.hooks.get('getattr')
        if h is not None:
            r = h(self, obj, name, cx, lineno)
            if r is not NotImplemented:
                return r
        if isinstance(obj, ModuleEnv):
            if not obj.loaded:
                self.module(obj.name)
            if name in obj.globals:
                return obj.globals[name]
            sub = obj.name + '.' + name
            if sub in self.repo.modules:
                return self.module(sub)
            raise PyExc('AttributeError', f'module {obj.name} has no {name}', lineno)
        if isinstance(obj, ExternModule):
            if name in obj.attrs:
                return obj.attrs[name]
            raise Unsupported(f'no model for {obj.name}.{name} (line {lineno})')
        if isinstance(obj, ObjVal):
            if name in obj.fields:
                return obj.fields[name]
            if name == '__class__':
                return obj.cls
            v, owner = obj.cls.lookup(name)
            if owner is not None:
                return self._bind(v, obj, cx, lineno)
            ga, owner = obj.cls.lookup('__pyvc_getattr__')
            if owner is not None:
                return ga(self, obj, name, cx, lineno)
            raise PyExc('AttributeError', f'{obj!r} has no attribute {name}', lineno)
        if isinstance(obj, ClassVal):
            v, owner = obj.lookup(name)
            if owner is not None:
                if isinstance(v, StaticVal):
                    return v.func
                return v
            if name == '__name__':
                return obj.name
            if obj.metaclass is not None and isinstance(obj.metaclass, ClassVal):
                v, owner = obj.metaclass.lookup(name)
                if owner is not None:
                    return self._bind(v, obj, cx, lineno)
            raise PyExc('AttributeError', f'class {obj.name} has no attribute {name}', lineno)
        if isinstance(obj, SuperVal):
            v, owner = obj.obj.cls.lookup(name, after=obj.cls) if isinstance(obj.obj, ObjVal) else (None, None)
            if owner is None:
                sup = getattr(obj.obj, '__pyvc_super__', None)
                if sup is not None:
                    return sup(self, obj.cls, name, cx, lineno)
                store = self._dict_store(obj.obj)
                if store is not None and name in ('__setitem__', '__getitem__', '__delitem__', '__contains__', '__len__'):
                    eng = self
                    ops = {'__setitem__': lambda k, v: store.__setitem__(eng._dkey(k), v),
                           '__getitem__': lambda k: store[eng._dkey(k)],
                           '__delitem__': lambda k: store.__delitem__(eng._dkey(k)),
                           '__contains__': lambda k: eng._dkey(k) in store, '__len__': lambda: len(store)}
                    return ExternFunc('dict.' + name, ops[name])
                if name == '__init__':
                    return ExternFunc('object.__init__', lambda *a, **k: None)
                raise PyExc('AttributeError', f'super has no attribute {name}', lineno)
            return self._bind(v, obj.obj, cx, lineno)
        if isinstance(obj, PyExc) and name == 'args':
            return (obj.msg,)
        if hasattr(obj, '__pyvc_getattr__'):
            return obj.__pyvc_getattr__(self, name, cx, lineno)
        if isinstance(obj, (list, dict, str, tuple)):
            return self._builtin_method(obj, name, lineno)
        if obj is None:
            raise PyExc('AttributeError', f"'NoneType' object has no attribute '{name}'", lineno)
        raise Unsupported(f'attribute {name} of {obj!r} (line {lineno})')

    def _bind(self, v, obj, cx, lineno):
        if isinstance(v, FuncVal):
            return BoundMethod(obj, v)
        if isinstance(v, PropVal):
            return self.call(v.fget, [obj], {}, cx, lineno)
        if isinstance(v, StaticVal):
            return v.func
        return v

    def _builtin_method(self, obj, name, lineno):
        if isinstance(obj, list) and name in ('append', 'extend', 'pop', 'remove', 'insert', 'index', 'copy'):
            def m(*a):
                try:
                    return getattr(obj, name)(*a)
                except ValueError:
                    raise PyExc('ValueError', 'list method', lineno)
                except IndexError:
                    raise PyExc('IndexError', 'list method', lineno)
            return ExternFunc(f'list.{name}', m)
        if isinstance(obj, dict) and name in ('get', 'copy', 'items', 'keys', 'values', 'pop', 'update', 'setdefault'):
            def m(*a):
                r = getattr(obj, name)(*a)
                if name in ('items', 'keys', 'values'):
                    return list(r)
                return r
            return ExternFunc(f'dict.{name}', m)
        if isinstance(obj, str) and name in ('startswith', 'endswith', 'format', 'join', 'lower'):
            return ExternFunc(f'str.{name}', lambda *a: getattr(obj, name)(*a))
        if isinstance(obj, tuple) and name in ('index', 'count'):
            return ExternFunc(f'tuple.{name}', lambda *a: getattr(obj, name)(*a))
        raise Unsupported(f'method {name} of {type(obj).__name__} (line {lineno})')

    def set_attr(self, obj, name, v, cx, lineno):
        h = self.hooks.get('setattr')
        if h is not None:
            r = h(self, obj, name, v, cx, lineno)
            if r is not NotImplemented:
                return
        if isinstance(obj, ObjVal):
            obj.fields[name] = v
            return
        if hasattr(obj, '__pyvc_setattr__'):
            return obj.__pyvc_setattr__(self, name, v, cx, lineno)
        raise Unsupported(f'setattr {name} on {obj!r} (line {lineno})')

    # ------------------------------------------------------------ items
    @staticmethod
    def _dkey(key):
        """Dictionary keys: a reference with a concrete value is hashable by that value."""
        if isinstance(key, SymRef):
            e = z3.simplify(key.e)
            if z3.is_int_value(e):
                return ('ref', key.kind, e.as_long())
            raise Unsupported('symbolic reference used as a dictionary key')
        return key

    @staticmethod
    def _dict_store(obj):
        """Backing store of an object whose class derives from the builtin dict (e.g. _LRUDict)."""
        if isinstance(obj, ObjVal) and any(getattr(b, 'name', None) == 'dict' for c in obj.cls.mro for b in c.bases):
            return obj.fields.setdefault('__dict_store__', {})
        return None

    def get_item(self, obj, key, cx, lineno):
        if isinstance(obj, (list, tuple, str)):
            if isinstance(key, SV):
                raise Unsupported(f'symbolic index into concrete sequence (line {lineno})')
            try:
                return obj[key]
            except IndexError:
                raise PyExc('IndexError', 'index out of range', lineno)
        store = self._dict_store(obj)
        if store is not None and obj.cls.lookup('__getitem__')[1] is None:
            obj = store
        if isinstance(obj, dict):
            if isinstance(key, (SV, SB)):
                raise Unsupported(f'symbolic key into concrete dict (line {lineno})')
            if hasattr(key, '__pyvc_dictkey__'):
                return key.__pyvc_dictkey__(self, obj, cx, lineno)
            key = self._dkey(key)
            try:
                return obj[key]
            except KeyError:
                raise PyExc('KeyError', repr(key), lineno)
            except TypeError:
                raise Unsupported(f'unhashable key {key!r} (line {lineno})')
        if hasattr(obj, '__pyvc_getitem__'):
            return obj.__pyvc_getitem__(self, key, cx, lineno)
        if isinstance(obj, ObjVal):
            gi, owner = obj.cls.lookup('__getitem__')
            if owner is not None:
                return self.call(BoundMethod(obj, gi), [key], {}, cx, lineno)
        raise Unsupported(f'subscript of {obj!r} (line {lineno})')

    def set_item(self, obj, key, v, cx, lineno):
        if isinstance(obj, list):
            obj[key] = v
            return
        if isinstance(obj, dict):
            obj[self._dkey(key)] = v
            return
        if hasattr(obj, '__pyvc_setitem__'):
            return obj.__pyvc_setitem__(self, key, v, cx, lineno)
        if isinstance(obj, ObjVal):
            si, owner = obj.cls.lookup('__setitem__')
            if owner is not None:
                return self.call(BoundMethod(obj, si), [key, v], {}, cx, lineno)
        raise Unsupported(f'item assignment on {obj!r} (line {lineno})')

    def del_item(self, obj, key, cx, lineno):
        store = self._dict_store(obj)
        if store is not None and obj.cls.lookup('__delitem__')[1] is None:
            obj = store
        if isinstance(obj, (list, dict)):
            try:
                del obj[self._dkey(key) if isinstance(obj, dict) else key]
            except (KeyError, IndexError):
                raise PyExc('KeyError', repr(key), lineno)
            return
        if hasattr(obj, '__pyvc_delitem__'):
            return obj.__pyvc_delitem__(self, key, cx, lineno)
        raise Unsupported(f'del item on {obj!r} (line {lineno})')

    # ------------------------------------------------------------ expressions
    def eval(self, node, fr, cx):
        m = getattr(self, 'ex_' + type(node).__name__, None)
        if m is None:
            raise Unsupported(f'expression {type(node).__name__} at line {getattr(node, "lineno", "?")}')
        return m(node, fr, cx)

    def ex_Constant(self, node, fr, cx):
        v = node.value
        if isinstance(v, float):
            seg = None
            try:
                seg = ast.get_source_segment(fr.module.info.src, node)
            except Exception:
                pass
            if seg is not None:
                try:
                    return Fraction(seg)
                except (ValueError, ZeroDivisionError):
                    pass
            return Fraction(repr(v))
        return v

    def ex_Name(self, node, fr, cx):
        return self.lookup(node.id, fr, node.lineno)

    def lookup(self, name, fr, lineno=None):
        f = fr
        while f is not None:
            if name in f.locals:
                return f.locals[name]
            f = f.parent
        g = fr.module.globals
        if name in g:
            return g[name]
        if name in self.builtins:
            return self.builtins[name]
        raise PyExc('NameError', name, lineno)

    def ex_Attribute(self, node, fr, cx):
        obj = self.eval(node.value, fr, cx)
        return self.get_attr(obj, node.attr, cx, node.lineno)

    def ex_Subscript(self, node, fr, cx):
        obj = self.eval(node.value, fr, cx)
        key = self.eval(node.slice, fr, cx)
        return self.get_item(obj, key, cx, node.lineno)

    def ex_Slice(self, node, fr, cx):
        lo = self.eval(node.lower, fr, cx) if node.lower is not None else None
        hi = self.eval(node.upper, fr, cx) if node.upper is not None else None
        st = self.eval(node.step, fr, cx) if node.step is not None else None
        return slice(lo, hi, st)

    def ex_Tuple(self, node, fr, cx):
        out = []
        for e in node.elts:
            if isinstance(e, ast.Starred):
                out.extend(self.iterate(self.eval(e.value, fr, cx), cx, node.lineno))
            else:
                out.append(self.eval(e, fr, cx))
        return tuple(out)

    def ex_List(self, node, fr, cx):
        return list(self.ex_Tuple(node, fr, cx))

    def ex_Dict(self, node, fr, cx):
        d = {}
        for k, v in zip(node.keys, node.values):
            if k is None:
                d.update(self.eval(v, fr, cx))
            else:
                d[self.eval(k, fr, cx)] = self.eval(v, fr, cx)
        return d

    def ex_Set(self, node, fr, cx):
        return set(self.eval(e, fr, cx) for e in node.elts)

    def ex_JoinedStr(self, node, fr, cx):
        self.dropped['fstrings'] += 1
        return '<f-string>'

    def ex_Lambda(self, node, fr, cx):
        return self.make_function(node, fr, cx)

    def ex_IfExp(self, node, fr, cx):
        c = self.eval(node.test, fr, cx)
        if cx.branch(c, node.lineno):
            return self.eval(node.body, fr, cx)
        return self.eval(node.orelse, fr, cx)

    def ex_BoolOp(self, node, fr, cx):
        is_and = isinstance(node.op, ast.And)
        v = None
        for i, e in enumerate(node.values):
            v = self.eval(e, fr, cx)
            if i == len(node.values) - 1:
                return v
            t = cx.branch(v, node.lineno) if isinstance(v, SB) else self.truthy(v)
            if is_and and not t:
                return v if not isinstance(v, SB) else False
            if not is_and and t:
                return v if not isinstance(v, SB) else True
        return v

    def ex_UnaryOp(self, node, fr, cx):
        v = self.eval(node.operand, fr, cx)
        if isinstance(node.op, ast.Not):
            if isinstance(v, SB):
                return SB(z3.Not(v.e))
            if isinstance(v, OptVal):
                return SB(z3.Or(v.isnone, to_z3(v.val) == 0))
            if isinstance(v, SV):
                return SB(v.e == 0)
            if isinstance(v, SymRef):
                return SB(v.e == 0)
            return not self.truthy(v)
        if isinstance(node.op, ast.USub):
            if isinstance(v, OptVal):
                v = self.unopt(v, cx, node.lineno)
            return -v
        if isinstance(node.op, ast.UAdd):
            return v
        raise Unsupported(f'unary {type(node.op).__name__}')

    def unopt(self, v, cx, lineno):
        cx.oblige(f'no-raise.TypeError(None)@L{lineno}', z3.Not(v.isnone), 'no-raise', lineno)
        return v.val

    def ex_BinOp(self, node, fr, cx):
        a = self.eval(node.left, fr, cx)
        b = self.eval(node.right, fr, cx)
        return self.binop(node.op, a, b, cx, node.lineno)

    def binop(self, op, a, b, cx, lineno):
        if isinstance(a, OptVal):
            a = self.unopt(a, cx, lineno)
        if isinstance(b, OptVal):
            b = self.unopt(b, cx, lineno)
        h = self.hooks.get('binop')
        if h is not None:
            r = h(self, op, a, b, cx, lineno)
            if r is not NotImplemented:
                return r
        t = type(op)
        if t is ast.Div:
            if isinstance(b, SV) and isinstance(a, (SV, int, Fraction)):
                cx.oblige(f'no-raise.ZeroDivisionError@L{lineno}', b.e != 0, 'no-raise', lineno)
            elif is_num(b) and is_num(a):
                if b == 0:
                    raise PyExc('ZeroDivisionError', '', lineno)
                return Fraction(a) / Fraction(b)
            elif is_num(b) and b == 0 and isinstance(a, SV):
                raise PyExc('ZeroDivisionError', '', lineno)
        if t is ast.Pow:
            if isinstance(a, SV) or isinstance(b, SV):
                if not (isinstance(b, int) or (isinstance(b, Fraction) and b.denominator == 1)):
                    return self.sym_pow(a, b, cx, lineno)
            elif is_num(a) and isinstance(b, Fraction) and b.denominator != 1:
                return self.sym_pow(a, b, cx, lineno)
            elif is_num(a) and is_num(b) and b < 0:
                return Fraction(a) ** int(b)
        if t is ast.Add and isinstance(a, (list, tuple)) and isinstance(b, (list, tuple)):
            if type(a) is not type(b):
                raise PyExc('TypeError', 'can only concatenate same sequence types', lineno)
            return a + b
        if t is ast.Mult and (isinstance(a, (list, tuple)) and isinstance(b, int) or
                              isinstance(b, (list, tuple)) and isinstance(a, int)):
            return a * b
        if t in (ast.BitAnd, ast.BitOr, ast.BitXor, ast.LShift, ast.RShift):
            if isinstance(a, int) and isinstance(b, int):
                return {ast.BitAnd: operator.and_, ast.BitOr: operator.or_, ast.BitXor: operator.xor,
                        ast.LShift: operator.lshift, ast.RShift: operator.rshift}[t](a, b)
            # Python ints are unbounded two's complement:  x & (2**k - 1) == x mod 2**k,  x << k == x * 2**k,  x >> k == x // 2**k
            if t is ast.BitAnd:
                if isinstance(a, int) and isinstance(b, SV):
                    a, b = b, a
                if isinstance(a, SV) and a.e.sort() == z3.IntSort() and isinstance(b, int) and b >= 0 and (b & (b + 1)) == 0:
                    return SV(a.e % z3.IntVal(b + 1))
            if t in (ast.LShift, ast.RShift) and isinstance(a, SV) and a.e.sort() == z3.IntSort() and isinstance(b, int) and b >= 0:
                return SV(a.e * z3.IntVal(2 ** b)) if t is ast.LShift else SV(a.e / z3.IntVal(2 ** b))
            raise Unsupported(f'operator {t.__name__} on {type(a).__name__},{type(b).__name__}')
        f = _BINOPS.get(t)
        if f is None:
            raise Unsupported(f'operator {t.__name__}')
        try:
            return f(a, b)
        except TypeError as e:
            raise Unsupported(f'binop {t.__name__} on {type(a).__name__},{type(b).__name__} (line {lineno}): {e}')
        except ZeroDivisionError:
            raise PyExc('ZeroDivisionError', '', lineno)

    def sym_pow(self, a, b, cx, lineno):
        h = self.hooks.get('pow')
        if h is None:
            raise Unsupported(f'non-integer power at line {lineno}')
        return h(self, a, b, cx, lineno)

    def ex_Compare(self, node, fr, cx):
        left = self.eval(node.left, fr, cx)
        acc = None
        for op, rn in zip(node.ops, node.comparators):
            right = self.eval(rn, fr, cx)
            r = self.compare(op, left, right, cx, node.lineno)
            if type(r).__name__ == 'XT' and len(node.ops) == 1:
                return r          # element-wise comparison of tensors yields a tensor of (possibly symbolic) booleans, not a truth value
            if isinstance(r, SB) or isinstance(acc, SB):
                ra = b2z(r)
                acc = SB(ra) if acc is None else SB(z3.And(b2z(acc), ra))
            else:
                r = self.truthy(r)
                if not r:
                    return False
                acc = True if acc is None else acc
            left = right
        return acc

    def compare(self, op, a, b, cx, lineno):
        t = type(op)
        if t in (ast.Is, ast.IsNot):
            r = self.is_(a, b, cx, lineno)
            if t is ast.IsNot:
                r = SB(z3.Not(r.e)) if isinstance(r, SB) else (not r)
            return r
        if t in (ast.In, ast.NotIn):
            r = self.contains(b, a, cx, lineno)
            if t is ast.NotIn:
                r = SB(z3.Not(r.e)) if isinstance(r, SB) else (not r)
            return r
        if isinstance(a, OptVal):
            a = self.unopt(a, cx, lineno)
        if isinstance(b, OptVal):
            b = self.unopt(b, cx, lineno)
        h = self.hooks.get('compare')
        if h is not None:
            r = h(self, op, a, b, cx, lineno)
            if r is not NotImplemented:
                return r
        f = _CMPOPS[t]
        try:
            r = f(a, b)
        except TypeError as e:
            raise Unsupported(f'comparison {t.__name__} on {a!r},{b!r} (line {lineno}): {e}')
        if r is NotImplemented:
            raise Unsupported(f'comparison {t.__name__} on {a!r},{b!r} (line {lineno})')
        return r

    def is_(self, a, b, cx, lineno):
        if b is None:
            if isinstance(a, OptVal):
                return SB(a.isnone)
            if isinstance(a, SymRef):
                return SB(a.e == 0)
            return a is None
        if a is None:
            return self.is_(b, a, cx, lineno)
        if isinstance(a, SymRef) and isinstance(b, SymRef):
            return SB(a.e == b.e)
        if isinstance(a, (SV, SB, OptVal)) or isinstance(b, (SV, SB, OptVal)):
            raise Unsupported(f'`is` on symbolic values (line {lineno})')
        return a is b

    def contains(self, container, item, cx, lineno):
        if isinstance(container, ClassVal) and container.metaclass is not None:
            m, owner = container.metaclass.lookup('__contains__')
            if owner is not None:
                return self.call(BoundMethod(container, m), [item], {}, cx, lineno)
        if hasattr(container, '__pyvc_contains__'):
            return container.__pyvc_contains__(self, item, cx, lineno)
        if isinstance(container, ObjVal):
            m, owner = container.cls.lookup('__contains__')
            if owner is not None:
                return self.call(BoundMethod(container, m), [item], {}, cx, lineno)
        if isinstance(container, (list, tuple, set, frozenset)):
            if hasattr(item, '__pyvc_in__'):
                return item.__pyvc_in__(self, list(container), cx, lineno)
            acc = False
            for x in container:
                r = self.compare(ast.Eq(), item, x, cx, lineno) if not (x is item) else True
                if isinstance(r, SB):
                    acc = SB(z3.Or(b2z(acc), r.e))
                elif self.truthy(r):
                    return True
            return acc
        store = self._dict_store(container)
        if store is not None and container.cls.lookup('__contains__')[1] is None:
            container = store
        if isinstance(container, dict):
            item = self._dkey(item)
            if isinstance(item, (SV, SB)):
                raise Unsupported('symbolic key membership in concrete dict')
            if hasattr(item, '__pyvc_in__'):
                return item.__pyvc_in__(self, list(container.keys()), cx, lineno)
            return item in container
        if isinstance(container, str):
            return item in container
        raise Unsupported(f'membership in {container!r} (line {lineno})')

    def ex_ListComp(self, node, fr, cx):
        return self._comp(node, fr, cx)

    def ex_GeneratorExp(self, node, fr, cx):
        return self._comp(node, fr, cx)

    def _comp(self, node, fr, cx):
        out = []
        sub = Frame(fr.func, fr.module, {}, parent=fr)
        sub.loop_ordinal = fr.loop_ordinal

        def rec(i):
            if i == len(node.generators):
                out.append(self.eval(node.elt, sub, cx))
                return
            g = node.generators[i]
            for v in self.iterate(self.eval(g.iter, sub, cx), cx, node.lineno):
                self.assign(g.target, v, sub, cx)
                if all(cx.branch(self.eval(c, sub, cx), node.lineno) for c in g.ifs):
                    rec(i + 1)
        rec(0)
        return out

    def ex_DictComp(self, node, fr, cx):
        out = {}
        sub = Frame(fr.func, fr.module, {}, parent=fr)
        assert len(node.generators) == 1
        g = node.generators[0]
        for v in self.iterate(self.eval(g.iter, sub, cx), cx, node.lineno):
            self.assign(g.target, v, sub, cx)
            if all(cx.branch(self.eval(c, sub, cx), node.lineno) for c in g.ifs):
                out[self.eval(node.key, sub, cx)] = self.eval(node.value, sub, cx)
        return out

    def ex_Starred(self, node, fr, cx):
        raise Unsupported('starred expression outside call/tuple')

    def ex_Yield(self, node, fr, cx):
        # `yield <call>` inside a trampolined generator: the value of the expression is the
        # callee's return value (exactly what trampoline.trampoline sends back).
        if node.value is None:
            return None
        return self.eval(node.value, fr, cx)

    # ------------------------------------------------------------ calls
    def ex_Call(self, node, fr, cx):
        fn = self.eval(node.func, fr, cx)
        args = []
        for a in node.args:
            if isinstance(a, ast.Starred):
                args.extend(self.iterate(self.eval(a.value, fr, cx), cx, node.lineno))
            else:
                args.append(self.eval(a, fr, cx))
        kwargs = {}
        for kw in node.keywords:
            if kw.arg is None:
                kwargs.update(self.eval(kw.value, fr, cx))
            else:
                kwargs[kw.arg] = self.eval(kw.value, fr, cx)
        if fn is self.builtins.get('super') and not args:
            # zero-argument super()
            cls = fr.func.owner if fr.func is not None else None
            f = fr
            while cls is None and f is not None:
                cls = f.func.owner if f.func is not None else None
                f = f.parent
            first = fr.func.node.args.args[0].arg
            return SuperVal(cls, fr.locals[first])
        return self.call(fn, args, kwargs, cx, node.lineno)

    def call(self, fn, args, kwargs, cx, lineno):
        h = self.hooks.get('call')
        if h is not None:
            r = h(self, fn, args, kwargs, cx, lineno)
            if r is not NotImplemented:
                return r
        if isinstance(fn, BoundMethod):
            return self.call(fn.func, [fn.obj] + list(args), kwargs, cx, lineno)
        if isinstance(fn, FuncVal):
            return self.call_function(fn, args, kwargs, cx, lineno)
        if isinstance(fn, ExternFunc):
            try:
                if fn.needs_cx:
                    return fn.fn(self, cx, lineno, *args, **kwargs)
                return fn.fn(*args, **kwargs)
            except SymbolicBoolUsed as e:
                raise Unsupported(f'{fn.name}: {e} (line {lineno})')
            except (ValueError, IndexError) as e:
                # shape / axis errors of the array kernel behind a torch operation: torch refuses such operands with a RuntimeError (IndexError)
                if (fn.name.startswith('torch.') or fn.name.startswith('Tensor.')) and type(e).__module__.startswith('numpy') or \
                        ((fn.name.startswith('torch.') or fn.name.startswith('Tensor.')) and type(e) in (ValueError, IndexError)
                         and ('dimension' in str(e) or 'axis' in str(e) or 'shape' in str(e) or 'broadcast' in str(e))):
                    raise PyExc('IndexError' if isinstance(e, IndexError) and 'axis' not in str(e) else 'RuntimeError', f'{fn.name}: {e}', lineno)
                raise
        if isinstance(fn, ClassVal):
            return self.instantiate(fn, args, kwargs, cx, lineno)
        if isinstance(fn, ExcClass):
            return PyExc(fn.name, args[0] if args else '', lineno)
        if isinstance(fn, StaticVal):
            return self.call(fn.func, args, kwargs, cx, lineno)
        if hasattr(fn, '__pyvc_call__'):
            return fn.__pyvc_call__(self, args, kwargs, cx, lineno)
        if isinstance(fn, ObjVal):
            m, owner = fn.cls.lookup('__call__')
            if owner is not None:
                return self.call(BoundMethod(fn, m), args, kwargs, cx, lineno)
        raise Unsupported(f'call of {fn!r} (line {lineno})')

    def instantiate(self, cls, args, kwargs, cx, lineno):
        h = self.hooks.get('instantiate')
        if h is not None:
            r = h(self, cls, args, kwargs, cx, lineno)
            if r is not NotImplemented:
                return r
        obj = ObjVal(cls)
        init, owner = cls.lookup('__init__')
        if owner is not None:
            self.call(BoundMethod(obj, init), args, kwargs, cx, lineno)
        return obj

    def bind_args(self, fv, args, kwargs, lineno):
        a = fv.node.args
        names = [x.arg for x in a.posonlyargs + a.args]
        loc = {}
        args = list(args)
        if len(args) > len(names) and a.vararg is None:
            raise PyExc('TypeError', f'{fv.qualname}: too many positional arguments', lineno)
        for n, v in zip(names, args):
            loc[n] = v
        if a.vararg is not None:
            loc[a.vararg.arg] = tuple(args[len(names):])
        kwargs = dict(kwargs)
        kwonly = [x.arg for x in a.kwonlyargs]
        for n in list(kwargs):
            if n in names or n in kwonly:
                if n in loc:
                    raise PyExc('TypeError', f'{fv.qualname}: multiple values for {n}', lineno)
                loc[n] = kwargs.pop(n)
        nd = len(fv.defaults)
        for i, n in enumerate(names):
            if n not in loc:
                j = i - (len(names) - nd)
                if j >= 0:
                    loc[n] = fv.defaults[j]
                else:
                    raise PyExc('TypeError', f'{fv.qualname}: missing argument {n}', lineno)
        for n in kwonly:
            if n not in loc:
                if n in fv.kwdefaults:
                    loc[n] = fv.kwdefaults[n]
                else:
                    raise PyExc('TypeError', f'{fv.qualname}: missing keyword argument {n}', lineno)
        if a.kwarg is not None:
            loc[a.kwarg.arg] = kwargs
        elif kwargs:
            raise PyExc('TypeError', f'{fv.qualname}: unexpected keyword arguments {list(kwargs)}', lineno)
        return loc

    def call_function(self, fv, args, kwargs, cx, lineno, force_body=False):
        q = fv.qualname
        if not force_body and q in self.contracts and not (self.verifying == q and cx.depth == 0):
            self.contract_calls.add(q)
            loc = self.bind_args(fv, args, kwargs, lineno)
            return self.contracts[q].apply(self, cx, loc, lineno)
        if cx.depth > 0 or self.verifying != q:
            self.inlined.add(q)
        loc = self.bind_args(fv, args, kwargs, lineno)
        if cx.depth >= self.max_depth:
            raise Unsupported(f'call depth > {self.max_depth} at {q} (recursion without a contract?)')
        fr = Frame(fv, fv.module, loc, parent=fv.closure)
        cx.depth += 1
        restore = None
        if self.borrow_args is not None and self.borrow_args(q):
            # ownership (frame) condition of this function: tensors received as arguments belong to the caller
            restore = self.borrow_enter(list(loc.values()))
        try:
            if isinstance(fv.node, ast.Lambda):
                return self.eval(fv.node.body, fr, cx)
            try:
                self.exec_block(fv.node.body, fr, cx)
            except _Return as r:
                return r.value
            return None
        finally:
            cx.depth -= 1
            if restore is not None:
                self.borrow_exit(restore)


class _ClassFrame(Frame):
    """Frame used to evaluate defaults/decorators of methods (lexical parent = enclosing frame)."""

    def __init__(self, outer, cls):
        super().__init__(outer.func, outer.module, outer.locals if outer.func is not None else {}, outer.parent)


class _ClassBodyFrame(Frame):
    def __init__(self, outer, cls):
        super().__init__(outer.func, outer.module, cls.attrs, parent=outer if outer.func is not None else None)
        self.is_class_body = True


def _as_load(node):
    if isinstance(node, ast.Name):
        return ast.Name(id=node.id, ctx=ast.Load())
    if isinstance(node, ast.Attribute):
        return ast.Attribute(value=node.value, attr=node.attr, ctx=ast.Load())
    if isinstance(node, ast.Subscript):
        return ast.Subscript(value=node.value, slice=node.slice, ctx=ast.Load())
    raise Unsupported('augmented assignment target')
