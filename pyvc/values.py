"""Symbolic value classes shared by the interpreter and the contracts."""
from fractions import Fraction
import z3


class Unsupported(Exception):
    """A construct outside the accepted subset (checker error, exit 3)."""


class SymbolicBoolUsed(Unsupported):
    pass


def is_num(x):
    return isinstance(x, (int, Fraction)) and not isinstance(x, bool)


def to_z3(x):
    if isinstance(x, SV):
        return x.e
    if isinstance(x, bool):
        raise Unsupported('bool used as number')
    if isinstance(x, int):
        return z3.IntVal(x)
    if isinstance(x, Fraction):
        return z3.RealVal(str(x)) if x.denominator != 1 else z3.RealVal(x.numerator)
    if isinstance(x, float):
        return z3.RealVal(str(Fraction(x)))
    raise Unsupported(f'cannot lift {type(x).__name__} to z3')


def to_real(e):
    return z3.ToReal(e) if e.sort() == z3.IntSort() else e


class SV:
    """Symbolic number (z3 Int or Real)."""
    __slots__ = ('e',)

    def __init__(self, e):
        assert isinstance(e, z3.ArithRef), e
        self.e = e

    # arithmetic ---------------------------------------------------------
    def _bin(self, other, f, swap=False):
        if isinstance(other, (SV, int, Fraction)) and not isinstance(other, bool):
            a, b = self.e, to_z3(other)
            if swap:
                a, b = b, a
            return SV(f(a, b))
        return NotImplemented

    def __add__(self, o): return self._bin(o, lambda a, b: a + b)
    def __radd__(self, o): return self._bin(o, lambda a, b: a + b, True)
    def __sub__(self, o): return self._bin(o, lambda a, b: a - b)
    def __rsub__(self, o): return self._bin(o, lambda a, b: a - b, True)
    def __mul__(self, o): return self._bin(o, lambda a, b: a * b)
    def __rmul__(self, o): return self._bin(o, lambda a, b: a * b, True)
    def __truediv__(self, o): return self._bin(o, lambda a, b: to_real(a) / to_real(b))
    def __rtruediv__(self, o): return self._bin(o, lambda a, b: to_real(a) / to_real(b), True)
    def __neg__(self): return SV(-self.e)
    def __pos__(self): return self

    def __pow__(self, n):
        if isinstance(n, Fraction) and n.denominator == 1:
            n = n.numerator
        if isinstance(n, int) and not isinstance(n, bool) and n >= 0:
            r = None
            for _ in range(n):
                r = self.e if r is None else r * self.e
            return SV(r if r is not None else z3.RealVal(1))
        return NotImplemented

    # comparisons --------------------------------------------------------
    def _cmp(self, o, f):
        if isinstance(o, (SV, int, Fraction)) and not isinstance(o, bool):
            return SB(f(self.e, to_z3(o)))
        return NotImplemented

    def __lt__(self, o): return self._cmp(o, lambda a, b: a < b)
    def __le__(self, o): return self._cmp(o, lambda a, b: a <= b)
    def __gt__(self, o): return self._cmp(o, lambda a, b: a > b)
    def __ge__(self, o): return self._cmp(o, lambda a, b: a >= b)

    def __eq__(self, o):
        if isinstance(o, (SV, int, Fraction)) and not isinstance(o, bool):
            return SB(self.e == to_z3(o))
        if o is None:
            return False
        return NotImplemented

    def __ne__(self, o):
        if isinstance(o, (SV, int, Fraction)) and not isinstance(o, bool):
            return SB(self.e != to_z3(o))
        if o is None:
            return True
        return NotImplemented

    __hash__ = None

    def __bool__(self):
        raise SymbolicBoolUsed('symbolic number used as a Python bool')

    def __repr__(self):
        return f'SV({self.e})'


class SB:
    """Symbolic boolean."""
    __slots__ = ('e',)

    def __init__(self, e):
        if isinstance(e, bool):
            e = z3.BoolVal(e)
        self.e = e

    def __bool__(self):
        raise SymbolicBoolUsed('symbolic bool used as a Python bool (interpreter must branch)')

    def __repr__(self):
        return f'SB({self.e})'


def b2z(x):
    """bool-ish -> z3 Bool"""
    if isinstance(x, SB):
        return x.e
    if isinstance(x, bool):
        return z3.BoolVal(x)
    if isinstance(x, z3.BoolRef):
        return x
    raise Unsupported(f'not a boolean: {x!r}')


class OptVal:
    """Optional[number]: `isnone` is a z3 Bool, `val` the value when not None."""
    __slots__ = ('isnone', 'val')

    def __init__(self, isnone, val):
        self.isnone = isnone
        self.val = val

    def __repr__(self):
        return f'Opt({self.isnone}, {self.val})'


class SymRef:
    """Reference into the symbolic heap (z3 Int; 0 is None)."""
    __slots__ = ('e', 'kind')

    def __init__(self, e, kind):
        self.e = e
        self.kind = kind

    def __repr__(self):
        return f'Ref<{self.kind}>({self.e})'

    __hash__ = None

    def __eq__(self, o):
        if isinstance(o, SymRef):
            return SB(self.e == o.e)
        if o is None:
            return SB(self.e == 0)
        return NotImplemented

    def __ne__(self, o):
        if isinstance(o, SymRef):
            return SB(self.e != o.e)
        if o is None:
            return SB(self.e != 0)
        return NotImplemented


class Opaque:
    """An opaque value of an uninterpreted z3 sort (abstract tensor, etc.)."""
    __slots__ = ('e', 'tag')

    def __init__(self, e, tag=None):
        self.e = e
        self.tag = tag

    def __repr__(self):
        return f'Opaque({self.e})'

    __hash__ = None

    def __eq__(self, o):
        if isinstance(o, Opaque):
            return SB(self.e == o.e)
        return NotImplemented
