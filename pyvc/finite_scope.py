"""Refutation by exact finite-scope expansion.

Quantified heap/sequence obligations that are *false* usually come back `unknown`, not `sat`.
Every quantifier in these VCs ranges over an Int variable guarded by explicit bounds
(1 <= n <= nalloc, lo <= i < len).  Fixing nalloc <= K and len <= Ls and instantiating each Int
quantifier over a range that covers those bounds yields a ground formula that is equisatisfiable
*within that scope*; uninterpreted functions with unguarded (real-valued) axioms are replaced by a
concrete interpretation that satisfies the axioms (e.g. rounding := identity).  A `sat` answer is a
genuine counter-model of the VC; `unsat` here proves nothing and the obligation stays undecided.
"""
import z3


def _expand(f, lo, hi, depth=0, drop_real=False):
    if z3.is_quantifier(f):
        if not f.is_forall() and not f.is_exists():
            return f
        nv = f.num_vars()
        if any(f.var_sort(i) != z3.IntSort() for i in range(nv)):
            if drop_real and f.is_forall():
                # hypothesis position only: an axiom about the uninterpreted rounding function, which has been replaced by a
                # concrete interpretation that satisfies it (checked by the obligations C07/lemma.round-model.*)
                return z3.BoolVal(True)
            raise ValueError('non-Int quantifier in finite-scope expansion')
        body = f.body()
        insts = []
        ranges = [range(lo, hi + 1)] * nv
        import itertools
        for vals in itertools.product(*ranges):
            inst = z3.substitute_vars(body, *[z3.IntVal(v) for v in reversed(vals)])
            insts.append(_expand(inst, lo, hi, depth + 1, drop_real))
        return z3.And(*insts) if f.is_forall() else z3.Or(*insts)
    if z3.is_app(f) and f.num_args() > 0 and f.sort() == z3.BoolSort():
        kids = [_expand(c, lo, hi, depth, drop_real) if c.sort() == z3.BoolSort() else c for c in f.children()]
        return f.decl()(*kids)
    return f


def _consts(fs):
    seen = {}
    stack = list(fs)
    visited = set()
    while stack:
        e = stack.pop()
        if e.get_id() in visited:
            continue
        visited.add(e.get_id())
        if z3.is_quantifier(e):
            stack.append(e.body())
            continue
        if z3.is_app(e):
            if e.num_args() == 0 and e.decl().kind() == z3.Z3_OP_UNINTERPRETED:
                seen[str(e)] = e
            stack.extend(e.children())
    return seen


def refute(engine, ob, cfg=None):
    cfg = cfg or engine.finite_scope
    K = cfg.get('K', 5)
    L = cfg.get('L', 3)
    funs = cfg.get('funs', [])
    fixed = cfg.get('fix', [])
    try:
        forms = list(engine.global_axioms) + list(ob.hyps) + [z3.Not(ob.goal)]
        if funs:
            forms = [z3.substitute_funs(f, *funs) for f in forms]
        pre = _consts(forms)
        subs = []
        for name, c in pre.items():
            for pref, val in cfg.get('set_bools', {}).items():
                if name.split('!')[0] == pref and c.sort() == z3.BoolSort():
                    subs.append((c, z3.BoolVal(val)))
            for pref, val in cfg.get('set_reals', {}).items():
                if name.split('!')[0] == pref and c.sort() == z3.RealSort():
                    subs.append((c, z3.RealVal(val)))
        if subs:
            forms = [z3.substitute(f, *subs) for f in forms]
        forms = [z3.simplify(f) for f in forms]
        cs = _consts(forms)
        bounds = []
        for name, c in cs.items():
            if c.sort() == z3.IntSort():
                if 'nalloc' in name:
                    bounds.append(z3.And(c >= 1, c <= K))
                elif 'len' in name:
                    bounds.append(z3.And(c >= 0, c <= L))
        dr = bool(cfg.get('drop_real_axioms'))
        forms = [_expand(f, -1, K + 2, 0, dr) for f in forms[:-1]] + [_expand(forms[-1], -1, K + 2)]
        s = z3.Solver()
        s.set('timeout', cfg.get('timeout_ms', 20000))
        for f in forms + bounds + list(fixed):
            s.add(f)
        r = s.check()
        if r == z3.sat:
            m = s.model()
            ob.status = 'refuted'
            ob.backend = f'z3-{z3.get_version_string()} finite-scope expansion (nalloc<={K}, len<={L}; {cfg.get("label", "")})'
            ob.model = {str(d.name()): str(m[d])[:200] for d in m.decls() if d.arity() == 0 or 'h.' in str(d.name())}
            ob.note = 'counter-model found in finite scope (quantified form was undecided)'
        else:
            ob.note = (ob.note or '') + f'; finite-scope (nalloc<={K}) gave {r}'
    except Exception as e:  # never turn a refuter problem into a verdict
        ob.note = (ob.note or '') + f'; finite-scope refuter error: {type(e).__name__}: {e}'
