"""Models of Python builtins and of the few stdlib/third-party names the repo uses.

Everything here is part of the trusted base (T6): these models stand for CPython's
behaviour.  They are exercised by the CPython cross-check (pyvc.crosscheck).
"""
import math
from fractions import Fraction

import z3

from .values import SV, SB, OptVal, SymRef, Unsupported, to_z3, b2z, is_num
from . import interp as I


def _algebraic_sqrt(engine, x):
    """sqrt of a concrete rational: exact when a perfect square, otherwise a named algebraic
    constant s with s >= 0 and s*s == x."""
    x = Fraction(x)
    if x < 0:
        raise I.PyExc('ValueError', 'math domain error')
    n, d = x.numerator, x.denominator
    rn, rd = math.isqrt(n), math.isqrt(d)
    if rn * rn == n and rd * rd == d:
        return Fraction(rn, rd)
    key = ('sqrt', x)
    if key not in engine.algebraic:
        c = z3.Real(f'sqrt_{n}_{d}')
        engine.global_axioms.append(c > 0)
        engine.global_axioms.append(c * c == to_z3(x))
        engine.algebraic[key] = SV(c)
    return engine.algebraic[key]


def sym_sqrt(engine, cx, lineno, x):
    if isinstance(x, SV):
        cx.oblige(f'call-pre.sqrt-nonneg@L{lineno}', x.e >= 0, 'call-pre', lineno)
        # sqrt is a function: syntactically equal arguments share one root symbol (per path)
        arg = z3.simplify(x.e)
        cache = cx.state.setdefault('sqrt_cache', {})
        hit = cache.get(arg.get_id())
        if hit is not None:
            return SV(hit[1])
        s = cx.fresh('sqrt')
        cache[arg.get_id()] = (arg, s)
        cx.assume(z3.And(s >= 0, s * s == x.e))
        return SV(s)
    if is_num(x):
        return _algebraic_sqrt(engine, x)
    if hasattr(x, '__pyvc_sqrt__'):
        return x.__pyvc_sqrt__(engine, cx, lineno)
    raise Unsupported(f'sqrt of {x!r}')


def _minmax(is_min):
    def f(engine, cx, lineno, *args, **kw):
        if len(args) == 1:
            args = list(engine.iterate(args[0], cx, lineno))
        if kw:
            raise Unsupported('min/max with key')
        acc = args[0]
        for b in args[1:]:
            if isinstance(acc, OptVal):
                acc = engine.unopt(acc, cx, lineno)
            if isinstance(b, OptVal):
                b = engine.unopt(b, cx, lineno)
            if isinstance(acc, SV) or isinstance(b, SV):
                ea, eb = to_z3(acc), to_z3(b)
                # Python: min(a, b) returns a unless b < a ; max(a, b) returns a unless b > a
                cls = type(acc) if isinstance(acc, SV) and type(acc) is not SV else (type(b) if isinstance(b, SV) else SV)
                acc = cls(z3.If(eb < ea, eb, ea) if is_min else z3.If(eb > ea, eb, ea))
            elif is_num(acc) and is_num(b):
                acc = (b if b < acc else acc) if is_min else (b if b > acc else acc)
            elif hasattr(acc, '__pyvc_float__') or hasattr(b, '__pyvc_float__'):
                fa = acc.__pyvc_float__(engine, cx, lineno) if hasattr(acc, '__pyvc_float__') else acc
                fb = b.__pyvc_float__(engine, cx, lineno) if hasattr(b, '__pyvc_float__') else b
                if not (is_num(fa) and is_num(fb)):
                    raise Unsupported(f'min/max of symbolic tensors {acc!r},{b!r}')
                acc = (b if fb < fa else acc) if is_min else (b if fb > fa else acc)
            else:
                raise Unsupported(f'min/max of {acc!r},{b!r}')
        return acc
    return f


def _isinstance(engine, cx, lineno, obj, cls):
    classes = cls if isinstance(cls, tuple) else (cls,)
    for c in classes:
        if hasattr(obj, '__pyvc_isinstance__'):
            r = obj.__pyvc_isinstance__(engine, c)
            if r is not NotImplemented:
                if r:
                    return True
                continue
        if isinstance(c, I.ClassVal):
            if isinstance(obj, I.ObjVal) and obj.cls.issub(c):
                return True
        elif isinstance(c, PyType):
            if c.check(obj):
                return True
        elif isinstance(c, I.ExternBase):
            if isinstance(obj, I.ObjVal) and any(b is c for k in obj.cls.mro for b in k.bases):
                return True
        else:
            raise Unsupported(f'isinstance against {c!r}')
    return False


class PyType:
    def __init__(self, name, check, conv=None):
        self.name = name
        self.check = check
        self.conv = conv

    def __pyvc_call__(self, engine, args, kwargs, cx, lineno):
        if self.conv is None:
            raise Unsupported(f'{self.name}()')
        return self.conv(engine, cx, lineno, *args, **kwargs)

    def __repr__(self):
        return f'<type {self.name}>'


def _float(engine, cx, lineno, x=0):
    if isinstance(x, SV):
        return SV(z3.ToReal(x.e)) if x.e.sort() == z3.IntSort() else x
    if isinstance(x, OptVal):
        return engine.unopt(x, cx, lineno)
    if is_num(x):
        return Fraction(x)
    if hasattr(x, '__pyvc_float__'):
        return x.__pyvc_float__(engine, cx, lineno)
    raise Unsupported(f'float({x!r})')


def _int(engine, cx, lineno, x=0):
    if isinstance(x, bool):
        return int(x)
    if is_num(x):
        return int(x)  # truncation toward zero, as CPython
    if hasattr(x, '__pyvc_int__'):
        return x.__pyvc_int__(engine, cx, lineno)
    if isinstance(x, SV) and x.e.sort() == z3.IntSort():
        return x
    raise Unsupported(f'int({x!r})')


def _len(engine, cx, lineno, x):
    if isinstance(x, (list, tuple, dict, str, set, frozenset, range)):
        return len(x)
    if hasattr(x, '__pyvc_len__'):
        return x.__pyvc_len__()
    if isinstance(x, I.ObjVal):
        m, owner = x.cls.lookup('__len__')
        if owner is not None:
            return engine.call(I.BoundMethod(x, m), [], {}, cx, lineno)
        store = engine._dict_store(x)
        if store is not None:
            return len(store)
    raise Unsupported(f'len({x!r})')


def _hasattr(engine, cx, lineno, obj, name):
    try:
        engine.get_attr(obj, name, cx, lineno)
        return True
    except I.PyExc as e:
        if e.cls == 'AttributeError':
            return False
        raise


def _getattr(engine, cx, lineno, obj, name, *default):
    try:
        return engine.get_attr(obj, name, cx, lineno)
    except I.PyExc as e:
        if e.cls == 'AttributeError' and default:
            return default[0]
        raise


def _setattr(engine, cx, lineno, obj, name, v):
    engine.set_attr(obj, name, v, cx, lineno)


def _sum(engine, cx, lineno, it, start=0):
    acc = start
    for v in engine.iterate(it, cx, lineno):
        acc = engine.binop(I.ast.Add(), acc, v, cx, lineno)
    return acc


def _all(engine, cx, lineno, it):
    for v in engine.iterate(it, cx, lineno):
        if not cx.branch(v, lineno):
            return False
    return True


def _any(engine, cx, lineno, it):
    for v in engine.iterate(it, cx, lineno):
        if cx.branch(v, lineno):
            return True
    return False


def _abs(engine, cx, lineno, x):
    if isinstance(x, SV):
        return SV(z3.If(x.e >= 0, x.e, -x.e))
    if is_num(x):
        return abs(x)
    if hasattr(x, 'abs'):
        return x.abs()
    from .poly import Poly
    if isinstance(x, Poly):
        return _abs_atom(x)
    from .tensor import XT
    if isinstance(x, XT):
        import numpy as _np
        return x._new(_np.vectorize(lambda e: _abs_atom(Poly.lift(e)) if not is_num(e) else abs(e), otypes=[object])(x.a))
    raise Unsupported(f'abs({x!r})')


def _abs_atom(p):
    """|p| for a polynomial of unknown sign: an opaque atom named by the normal form of p (|p| is neither p nor -p in general)."""
    import hashlib
    from .poly import Poly
    if len(p.t) == 0:
        return Poly()
    if p.is_const() if hasattr(p, 'is_const') else False:
        return p
    return Poly.var('abs[' + hashlib.md5(repr(p.key()).encode()).hexdigest()[:10] + ']')


def _round(engine, cx, lineno, x, ndigits=None):
    if is_num(x) and (ndigits is None or isinstance(ndigits, int)):
        return Fraction(round(Fraction(x), ndigits)) if ndigits is not None else round(Fraction(x))
    h = engine.hooks.get('round')
    if h is not None:
        return h(engine, cx, lineno, x, ndigits)
    raise Unsupported('round() of a symbolic value without a model')


def _sorted(engine, cx, lineno, it, **kw):
    if kw:
        raise Unsupported('sorted with key')
    return sorted(engine.iterate(it, cx, lineno))


def _zip(engine, cx, lineno, *its):
    return list(zip(*[engine.iterate(i, cx, lineno) for i in its]))


def _filter(engine, cx, lineno, fn, it):
    out = []
    for v in engine.iterate(it, cx, lineno):
        r = engine.call(fn, [v], {}, cx, lineno) if fn is not None else v
        if cx.branch(r, lineno):
            out.append(v)
    return out


def _map(engine, cx, lineno, fn, *its):
    return [engine.call(fn, list(vs), {}, cx, lineno) for vs in zip(*[engine.iterate(i, cx, lineno) for i in its])]


def _dir(engine, cx, lineno, obj):
    if isinstance(obj, I.ClassVal):
        names = set(['__module__', '__doc__', '__dict__', '__weakref__'])
        for c in obj.mro:
            names.update(c.attrs)
        return sorted(names)
    raise Unsupported(f'dir({obj!r})')


def _list(engine, cx, lineno, it=()):
    return list(engine.iterate(it, cx, lineno))


def _tuple(engine, cx, lineno, it=()):
    if hasattr(it, '__pyvc_tuple__'):
        return it.__pyvc_tuple__()
    return tuple(engine.iterate(it, cx, lineno))


def _enumerate(engine, cx, lineno, it, start=0):
    return list(enumerate(engine.iterate(it, cx, lineno), start))


def _bool(engine, cx, lineno, x=False):
    if isinstance(x, SB):
        return x
    return engine.truthy(x)


def _type(engine, cx, lineno, x):
    if isinstance(x, I.ObjVal):
        return x.cls
    raise Unsupported(f'type({x!r})')


def _super(engine, cx, lineno, cls, obj):
    return I.SuperVal(cls, obj)


def _range(engine, cx, lineno, *a):
    if all(isinstance(x, int) for x in a):
        return range(*a)
    raise Unsupported('range with symbolic bounds and no loop invariant')


def _property(engine, cx, lineno, f):
    return I.PropVal(f)


def _staticmethod(engine, cx, lineno, f):
    return I.StaticVal(f)


def _identity_decorator(engine, cx, lineno, f):
    return f


def _warn(engine, cx, lineno, *a, **k):
    engine.dropped['warnings.warn'] += 1
    return None


def _trampoline(engine, cx, lineno, gen_result):
    # Calling a generator function in pyvc already ran it to completion and returned its
    # return value; trampoline.trampoline(gen) therefore is the identity on that value.
    return gen_result


def _tailcall(engine, cx, lineno, gen_result):
    return I.TailCallVal(gen_result)


def _log10(engine, cx, lineno, x):
    if is_num(x):
        x = Fraction(x)
        # exact for powers of ten, otherwise floor via float (used only as -int(log10(tol)))
        k = 0
        y = x
        while y < 1:
            y *= 10
            k -= 1
        while y >= 10:
            y /= 10
            k += 1
        if y == 1:
            return Fraction(k)
        return Fraction(math.log10(float(x))).limit_denominator(10 ** 12)
    h = engine.hooks.get('log10')
    if h is not None:
        return h(engine, cx, lineno, x)
    raise Unsupported('log10 of a symbolic value')


def _isclose(engine, cx, lineno, a, b, rel_tol=Fraction(1, 10 ** 9), abs_tol=Fraction(0)):
    """math.isclose: abs(a-b) <= max(rel_tol * max(abs(a), abs(b)), abs_tol)"""
    if hasattr(a, 'item') and not isinstance(a, (SV, Fraction, int)):
        a = a.item()
    if hasattr(b, 'item') and not isinstance(b, (SV, Fraction, int)):
        b = b.item()
    if is_num(a) and is_num(b) and is_num(rel_tol) and is_num(abs_tol):
        return abs(a - b) <= max(rel_tol * max(abs(a), abs(b)), abs_tol)
    ea, eb, er, et = to_z3(a), to_z3(b), to_z3(rel_tol), to_z3(abs_tol)
    ab = lambda x: z3.If(x >= 0, x, -x)
    mx = lambda x, y: z3.If(x >= y, x, y)
    return SB(ab(ea - eb) <= mx(er * mx(ab(ea), ab(eb)), et))


def install(engine):
    E = I.ExternFunc
    b = {}
    for n, f in [('min', _minmax(True)), ('max', _minmax(False)), ('isinstance', _isinstance), ('len', _len),
                 ('hasattr', _hasattr), ('getattr', _getattr), ('setattr', _setattr), ('sum', _sum), ('all', _all),
                 ('any', _any), ('abs', _abs), ('round', _round), ('sorted', _sorted), ('zip', _zip),
                 ('filter', _filter), ('map', _map), ('dir', _dir), ('enumerate', _enumerate),
                 ('type', _type), ('super', _super), ('range', _range), ('property', _property),
                 ('staticmethod', _staticmethod)]:
        b[n] = E(n, f, needs_cx=True)
    b['float'] = PyType('float', lambda v: isinstance(v, Fraction) or (isinstance(v, SV) and v.e.sort() == z3.RealSort()), _float)
    b['int'] = PyType('int', lambda v: (isinstance(v, int) and not isinstance(v, bool)) or (isinstance(v, SV) and v.e.sort() == z3.IntSort()), _int)
    b['bool'] = PyType('bool', lambda v: isinstance(v, (bool, SB)), _bool)
    b['str'] = PyType('str', lambda v: isinstance(v, str), lambda e, c, l, x='': '<str>' if not isinstance(x, str) else x)
    b['list'] = PyType('list', lambda v: isinstance(v, list), _list)
    b['tuple'] = PyType('tuple', lambda v: isinstance(v, tuple), _tuple)
    b['dict'] = PyType('dict', lambda v: isinstance(v, dict), lambda e, c, l, *a, **k: dict(*a, **k))
    b['set'] = PyType('set', lambda v: isinstance(v, set), lambda e, c, l, it=(): set(e.iterate(it, c, l)))
    b['object'] = I.ExternBase('object')
    b['repr'] = E('repr', lambda x: '<repr>')
    b['print'] = E('print', lambda *a, **k: None)
    b['id'] = E('id', lambda x: id(x))
    b['True'], b['False'], b['None'] = True, False, None
    b['NotImplemented'] = NotImplemented
    for exc in list(I.EXC_PARENTS) + ['BaseException']:
        b[exc] = I.ExcClass(exc)
    engine.builtins = b

    engine.externs['math'] = I.ExternModule('math', {
        'sqrt': E('math.sqrt', sym_sqrt, needs_cx=True),
        'log10': E('math.log10', _log10, needs_cx=True),
        'isclose': E('math.isclose', _isclose, needs_cx=True),
        'pi': Fraction(math.pi),
    })
    engine.externs['warnings'] = I.ExternModule('warnings', {'warn': E('warnings.warn', _warn, needs_cx=True)})
    engine.externs['trampoline'] = I.ExternModule('trampoline', {
        'trampoline': E('trampoline.trampoline', _trampoline, needs_cx=True),
        'TailCall': E('trampoline.TailCall', _tailcall, needs_cx=True),
    })
    engine.externs['abc'] = I.ExternModule('abc', {
        'ABC': I.ExternBase('abc.ABC'),
        'ABCMeta': I.ExternBase('abc.ABCMeta'),
        'abstractmethod': E('abc.abstractmethod', _identity_decorator, needs_cx=True),
    })
    engine.externs['typing'] = I.ExternModule('typing', _Anything())
    engine.externs['numpy'] = I.ExternModule('numpy', {})
    engine.externs['torch'] = I.ExternModule('torch', {})
    engine.externs['torch.nn'] = I.ExternModule('torch.nn', {'Module': I.ExternBase('nn.Module')})
    engine.externs['torch'].attrs['nn'] = engine.externs['torch.nn']
    engine.externs['torch'].attrs['Tensor'] = I.ExternBase('torch.Tensor')
    engine.externs['torch'].attrs['autograd'] = I.ExternModule('torch.autograd', {'Function': I.ExternBase('torch.autograd.Function')})


class _Anything(dict):
    """typing names: any attribute is an inert placeholder (annotations are dropped anyway)."""

    def __contains__(self, k):
        return True

    def __getitem__(self, k):
        return _Inert(k)


class _Inert:
    def __init__(self, name):
        self.name = name

    def __pyvc_getitem__(self, engine, key, cx, lineno):
        return self

    def __repr__(self):
        return f'<typing {self.name}>'
