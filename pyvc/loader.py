"""Extraction: parse the real source of /repo/torchsde on every run.

Nothing here is copied by hand: the verified text is the file on disk.  The
loader indexes modules, classes and functions by qualified name and records a
SHA-256 of every function's source segment for the evidence files.
"""
import ast
import hashlib
import os

REPO = os.environ.get('PYVC_REPO', '/repo')
PKG = 'torchsde'


class ModuleInfo:
    def __init__(self, name, path, src, tree):
        self.name = name
        self.path = path
        self.src = src
        self.tree = tree
        self.is_pkg = os.path.basename(path) == '__init__.py'


class Repo:
    def __init__(self, root=None):
        self.root = root or REPO
        self.modules = {}
        self._load()

    def _load(self):
        base = os.path.join(self.root, PKG)
        for dirpath, _dirs, files in os.walk(base):
            for fn in sorted(files):
                if not fn.endswith('.py'):
                    continue
                path = os.path.join(dirpath, fn)
                rel = os.path.relpath(path, self.root)[:-3].replace(os.sep, '.')
                if rel.endswith('.__init__'):
                    rel = rel[:-len('.__init__')]
                with open(path, encoding='utf-8') as fh:
                    src = fh.read()
                tree = ast.parse(src, filename=path)
                self.modules[rel] = ModuleInfo(rel, path, src, tree)
        from . import alpha
        self.renamed_locals = alpha.normalise(self)

    # ---------------------------------------------------------------- lookup
    def find(self, qualname):
        """Return (ModuleInfo, node) for 'torchsde._core.interp.linear_interp' or
        'torchsde._brownian.brownian_interval._Interval._loc_inner'."""
        parts = qualname.split('.')
        for k in range(len(parts), 0, -1):
            mod = '.'.join(parts[:k])
            if mod in self.modules:
                node = self.modules[mod].tree
                ok = True
                for p in parts[k:]:
                    nxt = None
                    for child in getattr(node, 'body', []):
                        if isinstance(child, (ast.FunctionDef, ast.ClassDef)) and child.name == p:
                            nxt = child
                            break
                    if nxt is None:
                        ok = False
                        break
                    node = nxt
                if ok:
                    return self.modules[mod], node
        raise KeyError(qualname)

    def source_of(self, qualname):
        mod, node = self.find(qualname)
        return ast.get_source_segment(mod.src, node)

    def sha(self, qualname):
        return hashlib.sha256(self.source_of(qualname).encode()).hexdigest()

    def describe(self, qualname):
        mod, node = self.find(qualname)
        return {
            'function': qualname,
            'file': os.path.relpath(mod.path, self.root),
            'lines': [node.lineno, node.end_lineno],
            'sha256': self.sha(qualname)[:16],
        }


def patched_repo(patches, root=None):
    """Repo whose module sources have textual replacements applied in memory (canary mutants).
    patches: [(module, old, new)]; returns (repo, missing) where missing lists anchors not found."""
    repo = Repo(root)
    missing = []
    for module, old, new in patches:
        info = repo.modules[module]
        if info.src.count(old) != 1:
            missing.append((module, old))
            continue
        info.src = info.src.replace(old, new)
        info.tree = ast.parse(info.src, filename=info.path)
    from . import alpha
    repo.renamed_locals = alpha.normalise(repo)
    return repo, missing
